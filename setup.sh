#!/bin/sh
# Builds the verifier offline from files on disk only.
set -e
cd "$(dirname "$0")"
export GOFLAGS=-mod=mod GOPROXY=off GOSUMDB=off GOTOOLCHAIN=local
mkdir -p bin evidence replays
if [ -d cmd/govc ]; then
  (cd cmd/govc && go build -o ../../bin/govc .)
fi
