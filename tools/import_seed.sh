#!/bin/bash
# import_seed.sh <prop> <k> <srcdir>: verify a sub-agent's seed (patch<k>.diff, demo<k>_test.go, meta<k>.json in srcdir)
# with verify_seed.sh and, if confirmed, store it as /verif/seeded/<prop>-<k>/{patch.diff,demo_test.go,meta.json}
set -u
p=$1; k=$2; src=$3
[ -f $src/patch$k.diff ] && [ -f $src/demo${k}_test.go ] && [ -f $src/meta$k.json ] || { echo "$p-$k INCOMPLETE"; exit 2; }
out=$(/verif/tools/verify_seed.sh $src $k 2>&1 | tail -2)
echo "$p-$k: $out" | tr '\n' ' '; echo
if echo "$out" | grep -q "^CONFIRMED\|CONFIRMED$"; then
  d=/verif/seeded/$p-$k; mkdir -p $d
  cp $src/patch$k.diff $d/patch.diff; cp $src/demo${k}_test.go $d/demo_test.go
  python3 - $src/meta$k.json $d/meta.json $p <<'PY'
import json,sys
m=json.load(open(sys.argv[1])); m['property']=sys.argv[3]
m['confirmed_by']="tools/verify_seed.sh: patch applies to /repo HEAD in a scratch worktree, go build ok, pinned suite passes with the patch, demo fails with the patch and passes without it"
json.dump(m,open(sys.argv[2],'w'),indent=1)
PY
fi
