#!/bin/bash
# run_seed.sh <seed-id> [props...]: apply a seeded change to a scratch copy of /repo and run the checks.
set -u
sd=/verif/seeded/$1; shift
prop=$(python3 -c "import json;print(json.load(open('$sd/meta.json'))['property'])")
props=${@:-$prop}
w=/var/tmp/seedrun_$$
mkdir -p $w && rsync -a --exclude .git --exclude testdata /repo/ $w/ || exit 2
trap "rm -rf $w" EXIT
( cd $w && patch -s -p1 < $sd/patch.diff ) || { echo "PATCH-FAIL"; exit 3; }
for p in $props; do
  out=$(VERIF_OUT=/var/tmp/seedout /verif/bin/govc check $p --repo $w 2>&1); rc=$?
  echo "seed=$(basename $sd) prop=$p exit=$rc $(echo "$out" | grep -c '^VIOLATION') violations; $(echo "$out" | tail -1)"
  echo "$out" | grep -E "^(VIOLATION|OUTSIDE|STALE)" | head -3
done
