#!/bin/bash
# selftest.sh [seed-id ...]: must-fail corpus. Applies every seeded change (or the given ones) to a scratch copy
# of /repo and runs the check of its property (and, for seeds known to be caught by another property's
# contract, that property) there; reports which obligations catch it. A seed that no check catches is
# reported as MISSED (a weakness of the checks, not a violation of the property).
# Output: /verif/selftest/results.txt (one line per seed). Nothing is written into /repo.
set -u
cd /verif
mkdir -p selftest
declare -A ALSO=( [C04-2]=C05 [C06-2]=C12 [C16-1]=C12 [C07-1]=C05 )
seeds=${@:-$(ls seeded | sort)}
out=selftest/results.txt
: > $out.tmp
for s in $seeds; do
  prop=$(python3 -c "import json;print(json.load(open('seeded/$s/meta.json'))['property'])")
  props="$prop ${ALSO[$s]:-}"
  caught=""
  for p in $props; do
    rm -rf /var/tmp/seedout
    line=$(tools/run_seed.sh $s $p | head -1)
    if echo "$line" | grep -q "exit=1"; then
      obl=$(grep -h "^obligation:" /var/tmp/seedout/replays/*.txt 2>/dev/null | sed 's/obligation: //; s/github.com\/tormoder\/fit\.//g; s/(\*//; s/)//' | sort -u | head -3 | tr '\n' ' ')
      rep=$(grep -l "REPRODUCES\|GOVC-REPRODUCED" /var/tmp/seedout/replays/*.txt 2>/dev/null | wc -l)
      caught="$caught $p:[$obl] replayed=$rep"
    fi
  done
  rm -rf /var/tmp/seedout
  if [ -n "$caught" ]; then echo "$s CAUGHT$caught" | tee -a $out.tmp; else echo "$s MISSED (checked: $props)" | tee -a $out.tmp; fi
done
# merge: lines of the seeds just run replace their old lines, other lines are kept
python3 - "$out" "$out.tmp" <<'PY'
import sys,os
old,new=sys.argv[1],sys.argv[2]
lines={}
order=[]
for f in (old,new):
    if not os.path.exists(f): continue
    for l in open(f):
        if not l.strip(): continue
        k=l.split()[0]
        if k not in lines: order.append(k)
        lines[k]=l
open(old,'w').write(''.join(lines[k] for k in sorted(order)))
os.remove(new)
PY
