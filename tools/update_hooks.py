#!/usr/bin/env python3
# refresh MANIFEST.hooks.source_commits with the `verif:` commits of /repo (newest first)
import json,subprocess
out=subprocess.check_output(['git','-C','/repo','log','--format=%H %s']).decode().splitlines()
cs=[l.split()[0] for l in out if l.split(' ',1)[1].startswith('verif:')]
m=json.load(open('/verif/MANIFEST.json'))
m['hooks']['source_commits']=cs
json.dump(m,open('/verif/MANIFEST.json','w'),indent=1)
print(len(cs),'verif commits')
