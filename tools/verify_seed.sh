#!/bin/bash
# verify_seed.sh <seed-dir> <k>: confirm that patch k applies to a clean checkout of /repo HEAD,
# builds, passes the pinned suite, that the demo fails with it and passes without it.
set -u
export GOFLAGS=-mod=mod GOPROXY=off GOSUMDB=off GOTOOLCHAIN=local
d=$1; k=$2
wt=/var/tmp/seedwt_$$
git -C /repo worktree add -q --detach $wt HEAD || exit 2
cleanup() { git -C /repo worktree remove --force $wt >/dev/null 2>&1; rm -rf $wt; }
trap cleanup EXIT
pkgdir=$(python3 -c "import json;print(json.load(open('$d/meta$k.json')).get('demo_pkg_dir','.'))")
cp $d/demo${k}_test.go $wt/$pkgdir/zz_demo${k}_test.go
( cd $wt && go test -vet=off -count=1 -run "TestSeed$k" ./$pkgdir > /tmp/seed_clean.log 2>&1 ); clean=$?
if ! git -C $wt apply $d/patch$k.diff 2>/tmp/seed_apply.log; then echo "APPLY-FAIL $(head -1 /tmp/seed_apply.log)"; exit 3; fi
( cd $wt && go build ./... > /tmp/seed_build.log 2>&1 ); build=$?
( cd $wt && go test -vet=off -count=1 -run "TestSeed$k" ./$pkgdir > /tmp/seed_mut.log 2>&1 ); mut=$?
rm -f $wt/$pkgdir/zz_demo${k}_test.go
( cd $wt && go test -vet=off -count=1 ./... > /tmp/seed_suite.log 2>&1 ); suite=$?
echo "seed=$d k=$k build=$build suite_with_patch=$suite demo_clean=$clean demo_with_patch=$mut"
if [ $build -eq 0 ] && [ $suite -eq 0 ] && [ $clean -eq 0 ] && [ $mut -ne 0 ]; then echo CONFIRMED; exit 0; fi
echo NOT-CONFIRMED; exit 1
