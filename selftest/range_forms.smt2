; The range-form equivalences that govc adds next to quantified array facts
; (cmd/govc/spec.go: rangeForms, rangeEquiv) are tautologies of 64-bit
; arithmetic. Each (check-sat) below must answer unsat.
(set-logic QF_BV)
(declare-const lo (_ BitVec 64))
(declare-const hi (_ BitVec 64))
(declare-const k (_ BitVec 64))
(declare-const q (_ BitVec 64))
(declare-const off (_ BitVec 64))
(declare-const n (_ BitVec 64))
(define-fun small ((t (_ BitVec 64))) Bool (and (bvslt #xFFFFFF0000000000 t) (bvslt t #x0000010000000000)))
(push 1) ; (1) lo <=s hi ==> (lo <=s k <s hi <=> (k-lo) <u (hi-lo))
(assert (bvsle lo hi))
(assert (not (= (and (bvsle lo k) (bvslt k hi)) (bvult (bvsub k lo) (bvsub hi lo)))))
(check-sat)
(pop 1)
(push 1) ; (2) relative guard <=> absolute guard when nothing overflows
(assert (and (bvsle #x0000000000000000 off) (bvslt off #x0000010000000000) (small lo) (small hi)))
(assert (not (= (and (bvsle lo (bvsub q off)) (bvslt (bvsub q off) hi)) (and (bvsle (bvadd off lo) q) (bvslt q (bvadd off hi))))))
(check-sat)
(pop 1)
(push 1) ; (3) copied range
(assert (and (bvsle #x0000000000000000 off) (bvslt off #x0000010000000000) (bvsle #x0000000000000000 n) (bvslt n #x0000010000000000)))
(assert (not (= (and (bvsle off q) (bvslt q (bvadd off n))) (bvult (bvsub q off) n))))
(check-sat)
(pop 1)
