package fit

// Hand-made witnesses for the defects D1..D16 of DESIGN.md §4 (in-package,
// go1.15 syntax). Run with:
//   go test -overlay ov.json -vet=off -count=1 -run ZZWitness .
import (
	"bytes"
	"encoding/binary"
	"errors"
	"io"
	"reflect"
	"testing"

	"github.com/tormoder/fit/dyncrc16"
)

type zzDef struct {
	num, size, btype byte
}

func zzFile(recs ...[]byte) []byte {
	var data []byte
	for _, r := range recs {
		data = append(data, r...)
	}
	h := []byte{12, 0x10, 0, 0, 0, 0, 0, 0, '.', 'F', 'I', 'T'}
	binary.LittleEndian.PutUint32(h[4:8], uint32(len(data)))
	out := append(h, data...)
	c := dyncrc16.Checksum(out)
	return append(out, byte(c), byte(c>>8))
}

func zzDefMsg(local byte, arch byte, global uint16, defs ...zzDef) []byte {
	b := []byte{0x40 | local, 0, arch}
	if arch == 0 {
		b = append(b, byte(global), byte(global>>8))
	} else {
		b = append(b, byte(global>>8), byte(global))
	}
	b = append(b, byte(len(defs)))
	for _, d := range defs {
		b = append(b, d.num, d.size, d.btype)
	}
	return b
}

func zzFileID(typ byte) []byte {
	return append(zzDefMsg(0, 0, 0, zzDef{0, 1, 0}), 0x00, typ)
}

func TestZZWitnessD1(t *testing.T) {
	h := NewHeader(V10, true)
	h.CRC = 0x1234
	if err := h.CheckIntegrity(); err == nil {
		t.Errorf("D1: Header.CheckIntegrity accepts a wrong non-zero CRC")
	}
	b, _ := NewHeader(V10, true).MarshalBinary()
	h2 := NewHeader(V10, true)
	h2.CRC = binary.LittleEndian.Uint16(b[12:14])
	if err := h2.CheckIntegrity(); err != nil {
		t.Errorf("D1: matching CRC rejected: %v", err)
	}
}

func TestZZWitnessD1size(t *testing.T) {
	defer func() {
		if r := recover(); r != nil {
			t.Errorf("D1: Header.CheckIntegrity panics for size 13: %v", r)
		}
	}()
	h := NewHeader(V10, true)
	h.Size = 13
	h.CRC = 1
	if err := h.CheckIntegrity(); err == nil {
		t.Errorf("D1: size 13 accepted")
	}
}

func TestZZWitnessD2(t *testing.T) {
	// record.distance (field 5, uint32) defined big-endian as uint16 0x1234
	in := zzFile(zzFileID(4), zzDefMsg(1, 1, 20, zzDef{5, 2, 0x84}), []byte{0x01, 0x12, 0x34})
	f, err := Decode(bytes.NewReader(in))
	if err != nil {
		t.Fatal(err)
	}
	a, _ := f.Activity()
	if got := a.Records[0].Distance; got != 0x1234 {
		t.Errorf("D2: distance = %#x, want 0x1234", got)
	}
}

func TestZZWitnessD3(t *testing.T) {
	// session field 52 (avg_neg_grade? sint16) defined as sint8 0xFF
	pf, ok := getField(MesgNumSession, 52)
	if !ok {
		t.Skip("no field 52")
	}
	_ = pf
	in := zzFile(zzFileID(4), zzDefMsg(1, 0, 18, zzDef{52, 1, 0x01}), []byte{0x01, 0xFF})
	f, err := Decode(bytes.NewReader(in))
	if err != nil {
		t.Fatal(err)
	}
	a, _ := f.Activity()
	if got := a.Sessions[0].AvgGrade; got != -1 {
		t.Errorf("D3: sint8 0xFF in sint16 field = %d, want -1", got)
	}
}

type zzFaultReader struct {
	data  []byte
	fault int
	pos   int
}

var errZZFault = errors.New("zz fault")

func (r *zzFaultReader) Read(p []byte) (int, error) {
	if r.pos >= r.fault {
		return 0, errZZFault
	}
	if r.pos >= len(r.data) {
		return 0, io.EOF
	}
	end := len(r.data)
	if end > r.fault {
		end = r.fault
	}
	n := copy(p, r.data[r.pos:end])
	r.pos += n
	return n, nil
}

func TestZZWitnessD4(t *testing.T) {
	one := zzFile(zzFileID(4))
	two := append(append([]byte{}, one...), one...)
	// fault exactly on the file boundary
	_, err := DecodeChained(&zzFaultReader{data: two, fault: len(one)})
	if err == nil {
		t.Errorf("D4: read fault on file boundary is swallowed")
	}
	// trailing garbage starting with 0x00
	_, err = DecodeChained(bytes.NewReader(append(append([]byte{}, one...), 0, 1, 2, 3)))
	if err == nil {
		t.Errorf("D4: trailing garbage starting with 00 is swallowed")
	}
	// clean EOF is fine
	fs, err := DecodeChained(bytes.NewReader(two))
	if err != nil || len(fs) != 2 {
		t.Errorf("D4: clean chain: %v %d", err, len(fs))
	}
}

func TestZZWitnessD5(t *testing.T) {
	in := zzFile(zzFileID(4), zzDefMsg(1, 0, 4080, zzDef{7, 1, 2}), []byte{0x01, 0x05})
	f, err := Decode(bytes.NewReader(in), WithUnknownFields(), WithUnknownMessages())
	if err != nil {
		t.Fatal(err)
	}
	if len(f.UnknownFields) != 0 {
		t.Errorf("D5: field of unknown message counted as unknown field: %v", f.UnknownFields)
	}
	if len(f.UnknownMessages) != 1 || f.UnknownMessages[0].Count != 1 {
		t.Errorf("D5: unknown messages: %v", f.UnknownMessages)
	}
}

func TestZZWitnessD6(t *testing.T) {
	h := NewHeader(V20, false)
	f, _ := NewFile(FileTypeActivity, h)
	a, _ := f.Activity()
	for i := 0; i < 3; i++ {
		r := NewRecordMsg()
		r.HeartRate = byte(60 + i)
		r.Cadence = 80
		r.Power = 200
		r.Altitude = 1000
		r.Speed = 5
		r.Temperature = 20
		a.Records = append(a.Records, r)
	}
	seen := map[string]bool{}
	for i := 0; i < 50; i++ {
		var buf bytes.Buffer
		if err := Encode(&buf, f, binary.LittleEndian); err != nil {
			t.Fatal(err)
		}
		seen[buf.String()] = true
	}
	if len(seen) != 1 {
		t.Errorf("D6: %d distinct encodings of the same File", len(seen))
	}
}

func TestZZWitnessD13(t *testing.T) {
	// segment file (34), segment_lap (142) avg_altitude field 34? use profile lookup
	var num byte
	found := false
	for n := 0; n < 256; n++ {
		if pf, ok := getField(MesgNumSegmentLap, byte(n)); ok {
			m := NewSegmentLapMsg()
			_ = m
			_ = pf
		}
	}
	_ = num
	_ = found
	m := NewSegmentLapMsg()
	m.AvgAltitude = 0x1234
	sf := new(SegmentFile)
	sf.add(reflectValueOf(*m))
	if sf.SegmentLap.EnhancedAvgAltitude != 0x1234 {
		t.Errorf("D13: segment file does not expand segment_lap components: %#x", sf.SegmentLap.EnhancedAvgAltitude)
	}
}

func TestZZWitnessD15(t *testing.T) {
	h := NewHeader(V10, true)
	f, _ := NewFile(FileTypeActivity, h)
	var buf bytes.Buffer
	if err := Encode(&buf, f, binary.LittleEndian); err != nil {
		t.Fatal(err)
	}
	out := buf.Bytes()
	w := binary.LittleEndian.Uint16(out[12:14])
	if f.Header.CRC != w {
		t.Errorf("D15: header CRC written %#x, File.Header.CRC %#x", w, f.Header.CRC)
	}
	if f.Header.DataSize != uint32(len(out)-14-2) {
		t.Errorf("D15: datasize")
	}
	if f.CRC != binary.LittleEndian.Uint16(out[len(out)-2:]) {
		t.Errorf("D15: file crc")
	}
}

func TestZZWitnessD16(t *testing.T) {
	// definition with dev flag, 0 regular fields, 1 developer field of size 1,
	// then a data record with 1 byte
	def := []byte{0x40 | 0x20 | 1, 0, 0, 20, 0, 0 /*fields*/, 1 /*ndev*/, 0, 1, 0}
	in := zzFile(zzFileID(4), def, []byte{0x01, 0xAA})
	f, err := Decode(bytes.NewReader(in))
	if err != nil {
		t.Fatalf("D16: %v", err)
	}
	a, _ := f.Activity()
	if len(a.Records) != 1 {
		t.Errorf("D16: records = %d, want 1", len(a.Records))
	}
	if f.FileId.Type != FileTypeActivity {
		t.Errorf("D16: file id overwritten: %v", f.FileId.Type)
	}
}

func reflectValueOf(x interface{}) reflect.Value { return reflect.ValueOf(x) }

func TestZZWitnessD2time(t *testing.T) {
	for _, arch := range []byte{0, 1} {
		data := []byte{0x01, 0x12, 0x34}
		want := uint32(0x1234)
		if arch == 0 {
			want = 0x3412
		}
		in := zzFile(zzFileID(4), zzDefMsg(1, arch, 20, zzDef{253, 2, 0x84}), data)
		f, err := Decode(bytes.NewReader(in))
		if err != nil {
			t.Fatal(err)
		}
		a, _ := f.Activity()
		if got := a.Records[0].Timestamp; !got.Equal(decodeDateTime(want)) {
			t.Errorf("D2: arch %d narrow timestamp = %v, want %v", arch, got, decodeDateTime(want))
		}
	}
}

func TestZZWitnessD3coord(t *testing.T) {
	for _, arch := range []byte{0, 1} {
		// record.position_lat (field 0) defined as sint16 = -2
		data := []byte{0x01, 0xFE, 0xFF}
		if arch == 1 {
			data = []byte{0x01, 0xFF, 0xFE}
		}
		in := zzFile(zzFileID(4), zzDefMsg(1, arch, 20, zzDef{0, 2, 0x83}), data)
		f, err := Decode(bytes.NewReader(in))
		if err != nil {
			t.Fatal(err)
		}
		a, _ := f.Activity()
		if got := a.Records[0].PositionLat.Semicircles(); got != -2 {
			t.Errorf("D3: arch %d narrow signed latitude = %d, want -2", arch, got)
		}
	}
}

func TestZZWitnessD9(t *testing.T) {
	// two activity messages with only local_timestamp (field 5), one hour apart, no UTC reference
	l1 := uint32(0x30000000)
	l2 := l1 + 3600
	rec := func(v uint32) []byte {
		return []byte{0x01, byte(v), byte(v >> 8), byte(v >> 16), byte(v >> 24)}
	}
	// then a record with compressed timestamp header (local type 2, offset 3)
	in := zzFile(zzFileID(4),
		zzDefMsg(1, 0, 34, zzDef{5, 4, 0x86}), rec(l1), rec(l2))
	var d decoder
	err := d.decode(bytes.NewReader(in), false, false, false)
	if err != nil {
		t.Fatal(err)
	}
	if d.timestamp != 0 {
		t.Errorf("D9: local timestamp became the reference time: %#x", d.timestamp)
	}
	_, off := d.file.activity.Activity.LocalTimestamp.Zone()
	if off != 0 {
		t.Errorf("D9: second local timestamp without reference has offset %d, want 0", off)
	}
	if !d.file.activity.Activity.LocalTimestamp.Equal(decodeDateTime(l2)) {
		t.Errorf("D9: second local timestamp instant")
	}
}

func TestZZWitnessD12(t *testing.T) {
	// record (20) with compressed_speed_distance (field 8, 3 bytes): distance 5 then 9 (12-bit counter)
	csd := func(dist uint16) []byte { return []byte{0x01, 0x00, byte(dist&0x0F) << 4, byte(dist >> 4)} }
	in := zzFile(zzFileID(4), zzDefMsg(1, 0, 20, zzDef{8, 3, 0x0D}), csd(5), csd(9))
	var got [][]uint32
	for k := 0; k < 2; k++ {
		f, err := Decode(bytes.NewReader(in))
		if err != nil {
			t.Fatal(err)
		}
		a, _ := f.Activity()
		got = append(got, []uint32{a.Records[0].Distance, a.Records[1].Distance})
	}
	if got[0][0] != got[1][0] || got[0][1] != got[1][1] {
		t.Errorf("D12: decoding the same bytes twice gives %v then %v", got[0], got[1])
	}
}

// D17: the record that follows the initial file_id definition is always taken
// as a normal data record of local type (header & 0x0F): a compressed-timestamp
// header (local type in bits 5-6) and even a definition header are accepted.
func TestZZWitnessD17(t *testing.T) {
	def := zzDefMsg(0, 0, 0, zzDef{0, 1, 0})
	// compressed-timestamp header for local type 1 (undefined), time offset 0: must be an error
	in := zzFile(def, []byte{0x80 | 1<<5, 4})
	if _, err := Decode(bytes.NewReader(in)); err == nil {
		t.Errorf("D17: data record for undefined local type 1 (compressed header 0xA0) decoded with the definition of local type 0")
	}
	// compressed-timestamp header for local type 0 with time offset 5: a legal file_id record
	in = zzFile(def, []byte{0x80 | 5, 4})
	if f, err := Decode(bytes.NewReader(in)); err != nil {
		t.Errorf("D17: compressed header for the defined local type 0 rejected: %v", err)
	} else if f.FileId.Type != FileTypeActivity {
		t.Errorf("D17: file id type = %v", f.FileId.Type)
	}
	// a definition header where the file_id data record must be
	in = zzFile(def, []byte{0x40, 4})
	if _, err := Decode(bytes.NewReader(in)); err == nil {
		t.Errorf("D17: definition record header 0x40 accepted as the file_id data record")
	}
}

// ---- open findings (these fail on the current tree; see known_findings.json) ----

// D7: a second file_id record with another type changes FileId.Type after the container was chosen.
func TestZZWitnessD7(t *testing.T) {
	in := zzFile(zzFileID(4), []byte{0x00, 2})
	f, err := Decode(bytes.NewReader(in))
	if err != nil {
		t.Fatalf("D7: %v", err)
	}
	if f.Type() != FileTypeSettings {
		t.Skipf("D7: type is %v", f.Type())
	}
	if s, err := f.Settings(); err == nil && s == nil {
		t.Errorf("D7: File.Type() is settings, Settings() returns (nil, nil): the container of the first file_id type was kept")
	}
	defer func() {
		if r := recover(); r != nil {
			t.Errorf("D7: Encode of the decoded File panics: %v", r)
		}
	}()
	_ = Encode(io.Discard, f, binary.LittleEndian)
}

// D8: Decode accepts a string that is not valid UTF-8, Encode refuses it.
func TestZZWitnessD8(t *testing.T) {
	// file_id with product_name (field 8, string of 3 bytes): FF FE 00
	def := zzDefMsg(0, 0, 0, zzDef{0, 1, 0}, zzDef{8, 3, 7})
	in := zzFile(def, []byte{0x00, 4, 0xFF, 0xFE, 0x00})
	f, err := Decode(bytes.NewReader(in))
	if err != nil {
		t.Fatalf("D8: %v", err)
	}
	if err := Encode(io.Discard, f, binary.LittleEndian); err != nil {
		t.Errorf("D8: a File that Decode accepted cannot be encoded: %v", err)
	}
}

// D10: the upper half of compressed_speed_distance is shifted in 8 bits.
func TestZZWitnessD10(t *testing.T) {
	accumuDistance = nil
	x := &RecordMsg{Altitude: 0xFFFF, Speed: 0xFFFF, Cycles: 0xFF, CompressedAccumulatedPower: 0xFFFF, CompressedSpeedDistance: []byte{0x00, 0x00, 0xFF}}
	x.expandComponents()
	if x.Distance != 0xFF0 {
		t.Errorf("D10: compressed_speed_distance 00 00 FF gives distance %d, want %d (the 12 bits above the speed)", x.Distance, 0xFF0)
	}
	accumuDistance = nil
}

// D11: total_cycles and accumulated_power use an accumulator whose mask is 0.
func TestZZWitnessD11(t *testing.T) {
	accumuTotalCycles, accumuAccumulatedPower = nil, nil
	x := &RecordMsg{Altitude: 0xFFFF, Speed: 0xFFFF, Cycles: 5, CompressedAccumulatedPower: 7}
	x.expandComponents()
	if x.TotalCycles != 5 || x.AccumulatedPower != 7 {
		t.Errorf("D11: cycles 5 / power 7 expand to total_cycles %d, accumulated_power %d", x.TotalCycles, x.AccumulatedPower)
	}
	accumuTotalCycles, accumuAccumulatedPower = nil, nil
}

// D14: +90 degrees is invalid, -90 degrees is valid.
func TestZZWitnessD14(t *testing.T) {
	if NewLatitude(1<<30).Invalid() != NewLatitude(-(1 << 30)).Invalid() {
		t.Errorf("D14: NewLatitude(1<<30).Invalid() = %v, NewLatitude(-(1<<30)).Invalid() = %v", NewLatitude(1<<30).Invalid(), NewLatitude(-(1<<30)).Invalid())
	}
}
