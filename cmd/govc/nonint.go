package main

// Non-interference obligations for the decode options (property C16, first
// sentence): the logger and the unknown-field / unknown-message switches
// (decoder.debug, decoder.opts.*, and the two counter maps) influence nothing
// but logging and the unknown-item counters.  One obligation per function on
// the decoding paths, decided on the SSA form:
//   - values read from the option locations are tainted; taint follows data
//     flow and, at the join of a branch on a tainted condition, control flow;
//   - a tainted value may only be used as a branch condition, as an argument
//     of a Logger call, in an update of one of the two counter maps, or be
//     stored back into an option location;
//   - the code controlled by a tainted branch (up to its immediate
//     post-dominator) may only log, update the counter maps, (re)assign the
//     option locations or register the deferred export of the counters; it may
//     not return, panic, store anywhere else or call anything else.
// This is a dependence (frame) argument: it is sufficient for "the options
// never change messages, error or bytes consumed", not necessary.

import (
	"fmt"
	"go/token"
	"go/types"
	"sort"
	"strings"

	"golang.org/x/tools/go/ssa"
)

var nonintEntries = []string{"Decode", "DecodeChained", "CheckIntegrity", "DecodeHeader", "DecodeHeaderAndFileID"}

var optionFields = map[string]bool{"debug": true, "opts": true, "unknownFields": true, "unknownMessages": true}

func isDecoderPtr(t types.Type) bool {
	p, ok := t.Underlying().(*types.Pointer)
	if !ok {
		return false
	}
	n, ok := p.Elem().(*types.Named)
	return ok && n.Obj().Name() == "decoder" && n.Obj().Pkg() != nil && n.Obj().Pkg().Path() == modPath
}

func isOptionsPtr(t types.Type) bool {
	p, ok := t.Underlying().(*types.Pointer)
	if !ok {
		return false
	}
	n, ok := p.Elem().(*types.Named)
	return ok && n.Obj().Name() == "decodeOptions" && n.Obj().Pkg() != nil && n.Obj().Pkg().Path() == modPath
}

// optionAddr: v is the address of an option location.
func optionAddr(v ssa.Value) bool {
	fa, ok := v.(*ssa.FieldAddr)
	if !ok {
		return false
	}
	if isOptionsPtr(fa.X.Type()) {
		return true
	}
	if isDecoderPtr(fa.X.Type()) {
		st := fa.X.Type().Underlying().(*types.Pointer).Elem().Underlying().(*types.Struct)
		return optionFields[st.Field(fa.Field).Name()]
	}
	return false
}

func benignCallee(c *ssa.CallCommon) bool {
	if c.IsInvoke() {
		if n, ok := c.Value.Type().(*types.Named); ok && n.Obj().Name() == "Logger" {
			return true
		}
		return false
	}
	if f := c.StaticCallee(); f != nil {
		switch f.Name() {
		case "handleUnknownFields", "handleUnknownMessages":
			return f.Signature.Recv() != nil && isDecoderPtr(f.Signature.Recv().Type())
		}
	}
	return false
}

// postDominators computes, for every block, its immediate post-dominator
// (nil if none: the block does not reach an exit or has several exits).
func postDominators(fn *ssa.Function) map[*ssa.BasicBlock]*ssa.BasicBlock {
	n := len(fn.Blocks)
	// pdom sets as bitsets over block indices; a virtual exit has index n
	full := make([]bool, n+1)
	for i := range full {
		full[i] = true
	}
	pd := make([][]bool, n+1)
	for i := 0; i <= n; i++ {
		pd[i] = append([]bool(nil), full...)
	}
	exit := make([]bool, n+1)
	exit[n] = true
	pd[n] = exit
	succs := func(b *ssa.BasicBlock) []int {
		if len(b.Succs) == 0 {
			return []int{n}
		}
		var out []int
		for _, s := range b.Succs {
			out = append(out, s.Index)
		}
		return out
	}
	changed := true
	for changed {
		changed = false
		for i := n - 1; i >= 0; i-- {
			b := fn.Blocks[i]
			nw := append([]bool(nil), full...)
			for _, s := range succs(b) {
				for k := range nw {
					nw[k] = nw[k] && pd[s][k]
				}
			}
			nw[i] = true
			for k := range nw {
				if nw[k] != pd[i][k] {
					changed = true
				}
			}
			pd[i] = nw
		}
	}
	out := map[*ssa.BasicBlock]*ssa.BasicBlock{}
	for i, b := range fn.Blocks {
		// immediate post-dominator: the strict post-dominator that is post-dominated by all others
		var cands []int
		for k := 0; k < n; k++ {
			if k != i && pd[i][k] {
				cands = append(cands, k)
			}
		}
		for _, c := range cands {
			ok := true
			for _, o := range cands {
				if o != c && !pd[c][o] {
					ok = false
				}
			}
			if ok {
				out[b] = fn.Blocks[c]
			}
		}
	}
	return out
}

type nonintFinding struct {
	pos token.Pos
	msg string
}

func (w *World) nonintFunction(fn *ssa.Function) []nonintFinding {
	var out []nonintFinding
	add := func(p token.Pos, format string, a ...interface{}) {
		out = append(out, nonintFinding{p, fmt.Sprintf(format, a...)})
	}
	tainted := map[ssa.Value]bool{}
	ipdom := postDominators(fn)
	// local memory: addresses rooted at an Alloc of this function
	var localRoot func(v ssa.Value) bool
	localRoot = func(v ssa.Value) bool {
		switch x := v.(type) {
		case *ssa.Alloc:
			return true
		case *ssa.FieldAddr:
			return localRoot(x.X)
		case *ssa.IndexAddr:
			return localRoot(x.X)
		case *ssa.Slice:
			return localRoot(x.X)
		}
		return false
	}
	controlled := map[*ssa.BasicBlock]bool{} // blocks inside the region of a tainted branch
	for iter := 0; iter < 20; iter++ {
		changed := false
		mark := func(v ssa.Value) {
			if v != nil && !tainted[v] {
				tainted[v] = true
				changed = true
			}
		}
		for _, b := range fn.Blocks {
			for _, instr := range b.Instrs {
				switch x := instr.(type) {
				case *ssa.UnOp:
					if x.Op == token.MUL && optionAddr(x.X) {
						mark(x)
					} else if tainted[x.X] {
						mark(x)
					}
				case *ssa.If:
					if tainted[x.Cond] {
						// region: blocks reachable from the successors before the immediate post-dominator
						join := ipdom[b]
						seen := map[*ssa.BasicBlock]bool{}
						work := append([]*ssa.BasicBlock(nil), b.Succs...)
						for len(work) > 0 {
							c := work[len(work)-1]
							work = work[:len(work)-1]
							if c == join || seen[c] {
								continue
							}
							seen[c] = true
							if !controlled[c] {
								controlled[c] = true
								changed = true
							}
							work = append(work, c.Succs...)
						}
						if join != nil {
							for _, ji := range join.Instrs {
								phi, ok := ji.(*ssa.Phi)
								if !ok {
									break
								}
								// the value chosen at the join depends on the tainted condition iff the
								// edges that come out of the branch (its region or the branch block itself)
								// carry different values
								var first ssa.Value
								same := true
								for k, e := range phi.Edges {
									p := join.Preds[k]
									if p != b && !seen[p] {
										continue
									}
									if first == nil {
										first = e
									} else if e != first {
										same = false
									}
								}
								if !same {
									mark(phi)
								}
							}
						}
					}
				default:
					if v, ok := instr.(ssa.Value); ok {
						for _, op := range instr.Operands(nil) {
							if *op != nil && tainted[*op] {
								if _, isCall := instr.(*ssa.Call); isCall {
									continue // results of benign calls carry nothing back; others are reported below
								}
								mark(v)
							}
						}
					}
				}
			}
		}
		if !changed {
			break
		}
	}
	// uses of tainted values
	for _, b := range fn.Blocks {
		for _, instr := range b.Instrs {
			pos := instr.Pos()
			switch x := instr.(type) {
			case *ssa.Store:
				if optionAddr(x.Addr) || localRoot(x.Addr) {
					continue
				}
				if tainted[x.Val] {
					add(pos, "an option-dependent value is stored outside the option locations")
				}
				if controlled[b] {
					add(pos, "a store under an option-dependent branch")
				}
			case *ssa.MapUpdate:
				if !tainted[x.Map] {
					if tainted[x.Key] || tainted[x.Value] {
						add(pos, "an option-dependent value is stored in a map other than the unknown-item counters")
					}
					if controlled[b] {
						add(pos, "a map update under an option-dependent branch")
					}
				}
			case *ssa.Return:
				for _, r := range x.Results {
					if tainted[r] {
						add(pos, "an option-dependent value is returned")
					}
				}
				if controlled[b] {
					add(pos, "a return under an option-dependent branch")
				}
			case *ssa.Panic:
				if controlled[b] {
					add(pos, "a panic under an option-dependent branch")
				}
			case ssa.CallInstruction:
				cc := x.Common()
				if benignCallee(cc) {
					continue
				}
				if w.pureCallee(cc) {
					// a side-effect-free callee under an option-dependent branch only computes a value for the log
					if _, isVal := instr.(ssa.Value); isVal {
						continue
					}
				}
				if bi, ok := cc.Value.(*ssa.Builtin); ok {
					switch bi.Name() {
					case "len", "cap", "append", "copy":
						continue
					}
				}
				for _, a := range cc.Args {
					if tainted[a] {
						add(pos, "an option-dependent value is passed to %s", calleeName(cc))
					}
				}
				if cc.IsInvoke() && tainted[cc.Value] {
					add(pos, "a method is invoked on an option-dependent value")
				}
				if controlled[b] {
					add(pos, "a call of %s under an option-dependent branch", calleeName(cc))
				}
			case *ssa.Send, *ssa.Go:
				add(pos, "unsupported instruction")
			}
		}
	}
	return out
}

func calleeName(cc *ssa.CallCommon) string {
	if cc.IsInvoke() {
		return cc.Method.Name()
	}
	if f := cc.StaticCallee(); f != nil {
		return f.Name()
	}
	return cc.Value.Name()
}

// exportOnly: handleUnknownFields / handleUnknownMessages write nothing but the
// two result lists of the File (and memory they allocate themselves).
func (w *World) exportOnly(fn *ssa.Function) []nonintFinding {
	var out []nonintFinding
	var rooted func(v ssa.Value) string
	rooted = func(v ssa.Value) string {
		switch x := v.(type) {
		case *ssa.Alloc:
			return "local"
		case *ssa.FieldAddr:
			st := x.X.Type().Underlying().(*types.Pointer).Elem().Underlying().(*types.Struct)
			name := st.Field(x.Field).Name()
			if n, ok := x.X.Type().Underlying().(*types.Pointer).Elem().(*types.Named); ok && n.Obj().Name() == "File" && (name == "UnknownFields" || name == "UnknownMessages") {
				return "export"
			}
			return rooted(x.X)
		case *ssa.IndexAddr:
			return rooted(x.X)
		case *ssa.Slice:
			return rooted(x.X)
		case *ssa.Call, *ssa.MakeSlice, *ssa.UnOp, *ssa.Phi:
			return "fresh-or-loaded"
		}
		return "other"
	}
	for _, b := range fn.Blocks {
		for _, instr := range b.Instrs {
			if st, ok := instr.(*ssa.Store); ok {
				switch rooted(st.Addr) {
				case "local", "export", "fresh-or-loaded":
				default:
					out = append(out, nonintFinding{st.Pos(), "a store outside File.UnknownFields / File.UnknownMessages"})
				}
			}
			if mu, ok := instr.(*ssa.MapUpdate); ok {
				out = append(out, nonintFinding{mu.Pos(), "a map update in the export of the unknown-item counters"})
			}
		}
	}
	return out
}

func (w *World) nonintChecks() ([]groundCheck, []string) {
	sp := w.SSAPkgs[modPath]
	seen := map[*ssa.Function]bool{}
	var work []*ssa.Function
	push := func(f *ssa.Function) {
		if f == nil || seen[f] || f.Pkg == nil || f.Pkg.Pkg.Path() != modPath || len(f.Blocks) == 0 {
			return
		}
		seen[f] = true
		work = append(work, f)
	}
	for _, n := range nonintEntries {
		push(sp.Func(n))
	}
	for len(work) > 0 {
		fn := work[len(work)-1]
		work = work[:len(work)-1]
		for _, af := range fn.AnonFuncs {
			push(af)
		}
		for _, b := range fn.Blocks {
			for _, instr := range b.Instrs {
				if call, ok := instr.(ssa.CallInstruction); ok {
					if f := call.Common().StaticCallee(); f != nil {
						push(f)
					}
				}
				if mc, ok := instr.(*ssa.MakeClosure); ok {
					push(mc.Fn.(*ssa.Function))
				}
			}
		}
	}
	var fns []*ssa.Function
	for f := range seen {
		fns = append(fns, f)
	}
	sort.Slice(fns, func(i, j int) bool { return fns[i].String() < fns[j].String() })
	var checks []groundCheck
	var names []string
	for _, fn := range fns {
		// only functions that can see a decoder can read the options
		touches := false
		for _, b := range fn.Blocks {
			for _, instr := range b.Instrs {
				if fa, ok := instr.(*ssa.FieldAddr); ok && optionAddr(fa) {
					touches = true
				}
			}
		}
		names = append(names, fn.String())
		var fs []nonintFinding
		kind := "noninterference."
		if fn.Name() == "handleUnknownFields" || fn.Name() == "handleUnknownMessages" {
			fs = w.exportOnly(fn)
			kind = "export-only."
		} else if touches {
			fs = w.nonintFunction(fn)
		}
		gc := groundCheck{name: kind + shortFn(fn), ok: len(fs) == 0}
		if len(fs) > 0 {
			var why []string
			for i, f := range fs {
				if i >= 5 {
					why = append(why, fmt.Sprintf("... %d more", len(fs)-5))
					break
				}
				why = append(why, fmt.Sprintf("%s (%s)", f.msg, w.Fset.Position(f.pos)))
			}
			gc.why = "the decode options influence more than logging and the unknown-item counters in " + shortFn(fn) + ": " + strings.Join(why, "; ")
			gc.pos = w.Fset.Position(fs[0].pos).String()
		}
		checks = append(checks, gc)
	}
	return checks, names
}

// pureCallee: the callee has a contract with `assigns nothing` (function or
// interface method), or is one of the formatting functions.
func (w *World) pureCallee(cc *ssa.CallCommon) bool {
	name := ""
	if cc.IsInvoke() {
		name = cc.Method.Name()
		if name == "String" || name == "Error" {
			return true
		}
	} else if f := cc.StaticCallee(); f != nil {
		name = f.Name()
		if f.Pkg != nil && f.Pkg.Pkg.Path() == "fmt" && strings.HasPrefix(name, "Sprint") {
			return true
		}
	} else {
		return false
	}
	for _, c := range w.ContractList {
		if c.Raw.Name != name {
			continue
		}
		if cc.IsInvoke() != (c.Fn == nil) {
			continue
		}
		if !cc.IsInvoke() && c.Fn != cc.StaticCallee() {
			continue
		}
		pure := false
		for _, cl := range c.Raw.Clauses {
			if cl.Kind == "assigns" {
				if strings.TrimSpace(cl.Text) == "nothing" {
					pure = true
				} else {
					return false
				}
			}
		}
		if pure {
			return true
		}
	}
	return false
}
