package main

// Assumed contracts: io.Reader model (ghost input stream), io.ReadFull,
// io.CopyN, binary.Read, encoding/binary byte orders, loggers.

import (
	"fmt"
	"go/types"

	"golang.org/x/tools/go/ssa"
)

// Ghost symbols of the reader model (DESIGN.md §1.3):
//   ghost!instream(r, k) : byte k of the stream behind reader r
//   ghost!eofpos(r)      : number of bytes before clean EOF
//   ghost!faultpos(r)    : offset from which Read fails with a non-EOF error
//   Z!pos[r]             : bytes delivered so far (ghost state)

func (vc *VC) rdKey(r Val) string { return r.L[1] }

func (vc *VC) streamFns() {
	vc.declareFun("ghost!instream", []string{sBV64, sBV64, sBV64}, sBV8)
	vc.declareFun("ghost!eofpos", []string{sBV64, sBV64}, sBV64)
	vc.declareFun("ghost!faultpos", []string{sBV64, sBV64}, sBV64)
}

func (vc *VC) getPos(st *State, r Val) string    { return vc.getGhost(st, "pos", vc.rdKey(r), sBV64) }
func (vc *VC) setPos(st *State, r Val, v string) { vc.setGhost(st, "pos", vc.rdKey(r), sBV64, v) }
func (vc *VC) inAt(r Val, k string) string       { return app("ghost!instream", r.L[0], r.L[1], k) }
func (vc *VC) eofPos(r Val) string               { return app("ghost!eofpos", r.L[0], r.L[1]) }
func (vc *VC) faultPos(r Val) string             { return app("ghost!faultpos", r.L[0], r.L[1]) }

const readerAssumption = "io.Reader model: 0<=n<=len(p); bytes come from a fixed ghost stream in order; progress (len(p)>0 and n=0 implies err!=nil); clean EOF only at eofpos, non-EOF errors only at faultpos, both persistent; the reader does not panic or touch library state"

// streamLimit = min(eofpos, faultpos)
func (vc *VC) streamLimit(r Val) string {
	return ite(app("bvsle", vc.eofPos(r), vc.faultPos(r)), vc.eofPos(r), vc.faultPos(r))
}

// readInto models one Read call into slice p; returns (n, err).
func (vc *VC) readInto(st *State, r Val, p Val) (string, Val) {
	vc.trusted[readerAssumption] = true
	vc.streamFns()
	pos := vc.define("pos", sBV64, vc.getPos(st, r))
	n := vc.freshConst("rd_n", sBV64)
	err := freshVal(vc, st, types.Universe.Lookup("error").Type(), "rd_err")
	L, F := vc.eofPos(r), vc.faultPos(r)
	np := vc.define("pos", sBV64, app("bvadd", pos, n))
	isNil := eq(err.L[0], bvLit(64, 0))
	isEOF := vc.errIs(err, vc.externErrVar("io.EOF"))
	c := st.cond
	vc.assume(c, and(app("bvsle", bvLit(64, 0), pos), app("bvsle", pos, L), app("bvsle", pos, F), app("bvslt", L, bvLit(64, 1<<50)), app("bvslt", F, bvLit(64, 1<<50))))
	vc.assume(c, and(app("bvsle", bvLit(64, 0), n), app("bvsle", n, p.L[2])))
	vc.assume(c, and(app("bvsle", np, L), app("bvsle", np, F)))
	vc.assume(c, imp(and(app("bvsgt", p.L[2], bvLit(64, 0)), eq(n, bvLit(64, 0))), not(isNil)))
	vc.assume(c, imp(isEOF, and(eq(np, L), app("bvsle", L, F))))
	vc.assume(c, imp(and(not(isNil), not(isEOF)), eq(np, F)))
	vc.readerErrNotSentinel(st, err)
	vc.assume(c, imp(and(eq(pos, F), app("bvsgt", p.L[2], bvLit(64, 0))), and(not(isNil), not(isEOF))))
	vc.assume(c, imp(and(eq(pos, L), app("bvsle", L, F), not(eq(pos, F)), app("bvsgt", p.L[2], bvLit(64, 0))), isEOF))
	// buffer contents
	hn := elemHeapName(elemKey(types.Typ[types.Uint8]), "")
	hs := arrSort(sBV64, arrSort(sBV64, sBV8))
	h := vc.heapTerm(st, hn, hs)
	old := vc.define("rdo", arrSort(sBV64, sBV8), sel(h, p.L[0]))
	na := vc.freshConst("rda", arrSort(sBV64, sBV8))
	q := vc.fresh("i")
	inr := and(app("bvsle", p.L[1], q), app("bvslt", q, app("bvadd", p.L[1], n)))
	vc.assume("true", fmt.Sprintf("(forall ((%s %s)) (! (and (= (select %s %s) %s) %s) :pattern ((select %s %s))))", q, sBV64, na, q,
		ite(inr, vc.inAt(r, app("bvadd", pos, app("bvsub", q, p.L[1]))), sel(old, q)), rangeEquiv(q, p.L[1], n), na, q))
	vc.setHeap(st, hn, hs, sto(h, p.L[0], na))
	vc.setPos(st, r, np)
	return n, err
}

func byteElemTargets(vc *VC, key string) []locTarget {
	return []locTarget{{name: elemHeapName(elemKey(types.Typ[types.Uint8]), ""), sort: arrSort(sBV64, arrSort(sBV64, sBV8)), key: key, whole: key == ""}}
}

func init() {
	rd := func(vc *VC, fr *Frame, st *State, call *ssa.CallCommon, args []Val, rt types.Type) Val {
		n, err := vc.readInto(st, args[0], args[1])
		return Val{T: rt, L: append([]string{n}, err.L...)}
	}
	externTable["(io.Reader).Read"] = rd
	externEffectTable["(io.Reader).Read"] = func(vc *VC, cc *ssa.CallCommon) []locTarget {
		return append(byteElemTargets(vc, ""), locTarget{name: ghostHeapName("pos"), sort: arrSort(sBV64, sBV64), whole: true})
	}

	// io.ReadFull(r, buf): reads until len(buf) bytes or an error.
	externTable["io.ReadFull"] = func(vc *VC, fr *Frame, st *State, call *ssa.CallCommon, args []Val, rt types.Type) Val {
		vc.trusted["io.ReadFull: follows from the io.Reader model: n<=len(buf) bytes consumed in order; err==nil iff n==len(buf); io.EOF iff n==0 at clean end; io.ErrUnexpectedEOF iff 0<n<len(buf) at clean end; otherwise the reader's error"] = true
		vc.trusted[readerAssumption] = true
		vc.streamFns()
		r, p := args[0], args[1]
		pos := vc.define("pos", sBV64, vc.getPos(st, r))
		n := vc.freshConst("rf_n", sBV64)
		err := freshVal(vc, st, types.Universe.Lookup("error").Type(), "rf_err")
		L, F := vc.eofPos(r), vc.faultPos(r)
		np := vc.define("pos", sBV64, app("bvadd", pos, n))
		isNil := eq(err.L[0], bvLit(64, 0))
		isEOF := vc.errIs(err, vc.externErrVar("io.EOF"))
		isUEOF := vc.errIs(err, vc.externErrVar("io.ErrUnexpectedEOF"))
		c := st.cond
		lim := vc.define("lim", sBV64, vc.streamLimit(r))
		vc.assume(c, and(app("bvsle", bvLit(64, 0), pos), app("bvsle", pos, lim), app("bvslt", lim, bvLit(64, 1<<50))))
		// n = min(len, lim - pos)
		avail := app("bvsub", lim, pos)
		vc.assume(c, eq(n, ite(app("bvsle", p.L[2], avail), p.L[2], avail)))
		vc.assume(c, eq(isNil, eq(n, p.L[2])))
		atEOF := and(app("bvsle", L, F), not(eq(L, F)))
		_ = atEOF
		cleanEnd := app("bvslt", L, F) // stream ends cleanly before any fault
		short := not(eq(n, p.L[2]))
		vc.assume(c, imp(and(short, or(cleanEnd, eq(L, F))), ite(eq(n, bvLit(64, 0)), ite(app("bvsle", L, F), or(isEOF, not(isEOF)), "true"), "true")))
		vc.assume(c, imp(and(short, cleanEnd), and(eq(isEOF, eq(n, bvLit(64, 0))), eq(isUEOF, not(eq(n, bvLit(64, 0)))))))
		// a reader fault is any error but io.EOF (a fault that says io.EOF is a cut); in particular it may be
		// io.ErrUnexpectedEOF
		vc.assume(c, imp(and(short, not(cleanEnd)), not(isEOF)))
		vc.assume(c, imp(isNil, and(not(isEOF), not(isUEOF))))
		vc.readerErrNotSentinel(st, err)
		hn := elemHeapName(elemKey(types.Typ[types.Uint8]), "")
		hs := arrSort(sBV64, arrSort(sBV64, sBV8))
		h := vc.heapTerm(st, hn, hs)
		old := vc.define("rfo", arrSort(sBV64, sBV8), sel(h, p.L[0]))
		na := vc.freshConst("rfa", arrSort(sBV64, sBV8))
		q := vc.fresh("i")
		inr := and(app("bvsle", p.L[1], q), app("bvslt", q, app("bvadd", p.L[1], n)))
		vc.assume("true", fmt.Sprintf("(forall ((%s %s)) (! (and (= (select %s %s) %s) %s) :pattern ((select %s %s))))", q, sBV64, na, q,
			ite(inr, vc.inAt(r, app("bvadd", pos, app("bvsub", q, p.L[1]))), sel(old, q)), rangeEquiv(q, p.L[1], n), na, q))
		vc.setHeap(st, hn, hs, sto(h, p.L[0], na))
		vc.setPos(st, r, np)
		return Val{T: rt, L: append([]string{n}, err.L...)}
	}

	// binary.Read(r, order, *uint8): as ReadFull of one byte into the pointee.
	externTable["encoding/binary.Read"] = func(vc *VC, fr *Frame, st *State, call *ssa.CallCommon, args []Val, rt types.Type) Val {
		vc.trusted["binary.Read(r, order, *uint8): reads exactly one byte (io.ReadFull semantics) and stores it in the pointee"] = true
		vc.trusted[readerAssumption] = true
		vc.streamFns()
		r := args[0]
		d, ok := vc.ifacePtr[args[2].L[1]]
		if !ok {
			vc.unsupported("binary.Read into a value that is not a statically known pointer")
		}
		if b, ok := d.T.Underlying().(*types.Basic); !ok || b.Kind() != types.Uint8 {
			vc.unsupported("binary.Read of %s (only *uint8 is specified)", d.T)
		}
		pos := vc.define("pos", sBV64, vc.getPos(st, r))
		err := freshVal(vc, st, types.Universe.Lookup("error").Type(), "br_err")
		L, F := vc.eofPos(r), vc.faultPos(r)
		lim := vc.define("lim", sBV64, vc.streamLimit(r))
		isNil := eq(err.L[0], bvLit(64, 0))
		isEOF := vc.errIs(err, vc.externErrVar("io.EOF"))
		isUEOF := vc.errIs(err, vc.externErrVar("io.ErrUnexpectedEOF"))
		c := st.cond
		vc.assume(c, and(app("bvsle", bvLit(64, 0), pos), app("bvsle", pos, lim), app("bvslt", lim, bvLit(64, 1<<50))))
		vc.assume(c, eq(isNil, app("bvslt", pos, lim)))
		// one byte: io.EOF exactly at a clean end; a fault is any other error (possibly io.ErrUnexpectedEOF)
		vc.assume(c, imp(not(isNil), and(eq(isEOF, app("bvslt", L, F)), imp(isUEOF, not(app("bvslt", L, F))))))
		vc.assume(c, imp(isNil, and(not(isEOF), not(isUEOF))))
		vc.readerErrNotSentinel(st, err)
		// store the byte on success (on failure the pointee is unchanged)
		old := vc.loadDesc(st, d)
		nb := ite(isNil, vc.inAt(r, pos), old.L[0])
		vc.storeDesc(st, d, Val{T: d.T, L: []string{nb}})
		vc.setPos(st, r, ite(isNil, app("bvadd", pos, bvLit(64, 1)), pos))
		return Val{T: rt, L: err.L}
	}

	// byte orders -----------------------------------------------------------
	uintN := func(nbytes int, little bool, dyn bool) externFn {
		return func(vc *VC, fr *Frame, st *State, call *ssa.CallCommon, args []Val, rt types.Type) Val {
			vc.trusted["encoding/binary ByteOrder.UintN(b): requires len(b) >= N/8 (panics otherwise); little/big-endian composition by dynamic type"] = true
			b := args[len(args)-1]
			vc.oblige(st, "pre@binary.Uint", fmt.Sprintf("len%d", nbytes*8), app("bvsge", b.L[2], bvLit(64, uint64(nbytes))), call.Pos(), vc.safetyProps)
			hn := elemHeapName(elemKey(types.Typ[types.Uint8]), "")
			hs := arrSort(sBV64, arrSort(sBV64, sBV8))
			arr := vc.define("bo", arrSort(sBV64, sBV8), sel(vc.heapTerm(st, hn, hs), b.L[0]))
			byteAt := func(i int) string { return sel(arr, app("bvadd", b.L[1], bvLit(64, uint64(i)))) }
			var le, be []string
			for i := 0; i < nbytes; i++ {
				le = append([]string{byteAt(i)}, le...) // most significant first in concat
				be = append(be, byteAt(i))
			}
			lev, bev := app("concat", le...), app("concat", be...)
			if !dyn {
				if little {
					return Val{T: rt, L: []string{lev}}
				}
				return Val{T: rt, L: []string{bev}}
			}
			recv := args[0]
			leTag := bvLit(64, uint64(vc.w.tags.tagNamed("encoding/binary.littleEndian")))
			beTag := bvLit(64, uint64(vc.w.tags.tagNamed("encoding/binary.bigEndian")))
			vc.oblige(st, "pre@binary.ByteOrder", "known", or(eq(recv.L[0], leTag), eq(recv.L[0], beTag)), call.Pos(), vc.safetyProps)
			return Val{T: rt, L: []string{ite(eq(recv.L[0], leTag), lev, bev)}}
		}
	}
	for _, n := range []int{2, 4, 8} {
		externTable[fmt.Sprintf("(encoding/binary.littleEndian).Uint%d", n*8)] = uintN(n, true, false)
		externTable[fmt.Sprintf("(encoding/binary.bigEndian).Uint%d", n*8)] = uintN(n, false, false)
		externTable[fmt.Sprintf("(encoding/binary.ByteOrder).Uint%d", n*8)] = uintN(n, true, true)
	}
	putN := func(nbytes int, little bool) externFn {
		return func(vc *VC, fr *Frame, st *State, call *ssa.CallCommon, args []Val, rt types.Type) Val {
			vc.trusted["encoding/binary ByteOrder.PutUintN(b, v): requires len(b) >= N/8; stores the N/8 bytes of v in order"] = true
			b, v := args[len(args)-2], args[len(args)-1]
			vc.oblige(st, "pre@binary.PutUint", fmt.Sprintf("len%d", nbytes*8), app("bvsge", b.L[2], bvLit(64, uint64(nbytes))), call.Pos(), vc.safetyProps)
			hn := elemHeapName(elemKey(types.Typ[types.Uint8]), "")
			hs := arrSort(sBV64, arrSort(sBV64, sBV8))
			h := vc.heapTerm(st, hn, hs)
			arr := sel(h, b.L[0])
			for i := 0; i < nbytes; i++ {
				k := i
				if !little {
					k = nbytes - 1 - i
				}
				byt := fmt.Sprintf("((_ extract %d %d) %s)", k*8+7, k*8, v.L[0])
				arr = sto(arr, app("bvadd", b.L[1], bvLit(64, uint64(i))), byt)
			}
			vc.setHeap(st, hn, hs, sto(h, b.L[0], arr))
			return Val{T: rt}
		}
	}
	for _, n := range []int{2, 4, 8} {
		externTable[fmt.Sprintf("(encoding/binary.littleEndian).PutUint%d", n*8)] = putN(n, true)
		externTable[fmt.Sprintf("(encoding/binary.bigEndian).PutUint%d", n*8)] = putN(n, false)
	}

	// loggers: no effect on library state
	for _, m := range []string{"Print", "Printf", "Println"} {
		externTable["("+modPath+".Logger)."+m] = func(vc *VC, fr *Frame, st *State, call *ssa.CallCommon, args []Val, rt types.Type) Val {
			vc.trusted["user-supplied Logger: does not panic and does not touch the library's state"] = true
			return Val{T: rt}
		}
	}
}

func init() {
	// io.CopyN(dst, src, n): copies n bytes (or until an error) from src to dst.
	externTable["io.CopyN"] = func(vc *VC, fr *Frame, st *State, call *ssa.CallCommon, args []Val, rt types.Type) Val {
		vc.trusted["io.CopyN(dst, src, n): reads exactly min(n, available) bytes from src in order, never more than n, and writes each of them to dst; err==nil iff n bytes were copied; a short copy at a clean end of input reports io.EOF"] = true
		vc.trusted[readerAssumption] = true
		vc.streamFns()
		dst, r, n := args[0], args[1], args[2]
		pos := vc.define("pos", sBV64, vc.getPos(st, r))
		lim := vc.define("lim", sBV64, vc.streamLimit(r))
		L, F := vc.eofPos(r), vc.faultPos(r)
		c := st.cond
		vc.assume(c, and(app("bvsle", bvLit(64, 0), pos), app("bvsle", pos, lim), app("bvslt", lim, bvLit(64, 1<<50))))
		avail := app("bvsub", lim, pos)
		want := ite(app("bvslt", n.L[0], bvLit(64, 0)), bvLit(64, 0), n.L[0])
		k := vc.define("cpn", sBV64, ite(app("bvsle", want, avail), want, avail))
		err := freshVal(vc, st, types.Universe.Lookup("error").Type(), "cp_err")
		isNil := eq(err.L[0], bvLit(64, 0))
		isEOF := vc.errIs(err, vc.externErrVar("io.EOF"))
		vc.assume(c, eq(isNil, eq(k, want)))
		vc.assume(c, imp(not(isNil), eq(isEOF, app("bvslt", L, F))))
		vc.readerErrNotSentinel(st, err)
		vc.setPos(st, r, app("bvadd", pos, k))
		// the destination's state changes (its Write is called with the copied bytes)
		if hw, ok := vc.w.IfaceContracts["("+modPath+"/dyncrc16.Hash16).Write"]; ok {
			// dst is a Hash16 in the only call site; its running sum is the fold over the copied stream bytes
			env := vc.contractEnv(hw, []Val{dst, vc.zeroVal(hw.Params[1].Type())}, nil, st, nil)
			ts := vc.assignTargets(hw, env, -1)
			vc.havocTargets(st, ts)
			vc.crcStreamUpdate(st, dst, r, pos, k)
		} else {
			vc.unsupported("io.CopyN into an unspecified writer")
		}
		return Val{T: rt, L: append([]string{k}, err.L...)}
	}
}

// crcStreamUpdate is refined by the C04 machinery (running checksum over the
// ghost stream); without it the destination state is unconstrained.
func (vc *VC) crcStreamUpdate(st *State, dst, r Val, pos, k string) {}

// readerErrNotSentinel: errors produced by the user's reader (or by io helpers
// on its behalf) are never errors.Is one of the repository's own sentinel values.
func (vc *VC) readerErrNotSentinel(st *State, err Val) {
	vc.declareFun("ErrIs", []string{sBV64, sBV64, sBV64, sBV64}, sBool)
	for _, t := range vc.w.errTargetList(vc) {
		if t.g == nil {
			continue
		}
		vc.assume(st.cond, not(vc.errIs(err, t.val)))
	}
}
