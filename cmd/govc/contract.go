package main

// Contract files: //@ comments in tag-guarded, comment-only files in /repo
// (contracts_verif.go in each verified package).  This file parses them,
// lowers the few non-Go constructs (==>, forall .. in .. ::, exists) to Go
// calls, and generates one overlay Go file per package that is type-checked
// together with the package by go/packages.  Nothing here is written to /repo.

import (
	"bufio"
	"fmt"
	"os"
	"path/filepath"
	"regexp"
	"sort"
	"strings"
)

type RawClause struct {
	Kind   string // requires ensures invariant decreases assigns lemma assume
	Label  string
	Text   string   // expression text (lowered later)
	Props  []string // property tags
	Loop   int      // for invariant/decreases/assigns-in-loop: loop ordinal; -1 otherwise
	Line   int
	Id     int    // index in the generated clause function
	Callee string // for callsite clauses: name of the called function
}

type RawContract struct {
	Pkg           string // package dir ("." etc)
	File          string
	Line          int
	Header        string // "func (d *decoder) fill() (err error)"
	Recv          string // receiver type text, "" for functions
	Name          string
	Params        string // "d *decoder, p []byte" (receiver first)
	Results       string // "err error" (named)
	Locals        string // "j int, dsize int"
	Clauses       []*RawClause
	Props         []string
	Trusted       bool     // body not verified; contract assumed at call sites
	Nullable      []string // pointer params that may be nil
	Inline        bool
	Pure          bool // ensures result == f(args): function has no effects (checked via empty assigns)
	Split         string
	GenName       string // name of generated clause function
	Reveal        []string
	NoSubtype     bool
	Slow          map[string]int
	InnerPatterns bool
}

type RawSpec struct {
	Kind      string // pred | spec
	Name      string
	Params    string
	Result    string
	Body      string
	Pure      bool // heap independent -> SMT define-fun(-rec)
	Rec       bool
	Line      int
	File      string
	Opaque    bool
	Trigger   string
	Generated bool
}

type RawGhost struct {
	Decl  string // "func pos(r io.Reader) int"
	Name  string
	Const bool // immutable (uninterpreted function) rather than ghost state
}

type ContractFile struct {
	Dir       string // absolute package dir
	PkgName   string
	Imports   []string
	Contracts []*RawContract
	Specs     []*RawSpec
	Ghosts    []*RawGhost
	Lemmas    []*RawLemma
	Decls     []string // raw Go declarations placed in the overlay (types for ghosts)
}

type RawLemma struct {
	Name      string
	Params    string
	Hyps      []string
	Concl     string
	Props     []string
	Line      int
	File      string
	GenName   string
	Reveal    []string
	TimeoutS  int
	Induction []string // "induction base step": proved by the induction principle from two other lemmas
	Cases     string   // "cases profile": one sub-goal per known message number for the first (MesgNum) parameter
}

var reFuncHdr = regexp.MustCompile(`^func\s*(\(([^)]*)\))?\s*([A-Za-z_][A-Za-z0-9_]*)\s*\(([^)]*)\)\s*(.*)$`)

// parseContractFile reads one contracts_verif.go file.
func parseContractFile(path string) (*ContractFile, error) {
	f, err := os.Open(path)
	if err != nil {
		return nil, err
	}
	defer f.Close()
	cf := &ContractFile{Dir: filepath.Dir(path)}
	sc := bufio.NewScanner(f)
	sc.Buffer(make([]byte, 1<<20), 1<<20)
	var cur *RawContract
	var curLemma *RawLemma
	lineNo := 0
	var pend string // continuation
	var pendLine int
	flush := func(line string, ln int) error {
		line = strings.TrimSpace(line)
		if line == "" {
			return nil
		}
		word := line
		rest := ""
		if i := strings.IndexAny(line, " \t"); i >= 0 {
			word, rest = line[:i], strings.TrimSpace(line[i+1:])
		}
		switch word {
		case "import":
			cf.Imports = append(cf.Imports, rest)
		case "decl":
			cf.Decls = append(cf.Decls, rest)
		case "ghost":
			isConst := false
			if strings.HasPrefix(rest, "const ") {
				isConst = true
				rest = strings.TrimSpace(rest[6:])
			}
			m := reFuncHdr.FindStringSubmatch(rest)
			if m == nil {
				return fmt.Errorf("%s:%d: bad ghost decl", path, ln)
			}
			cf.Ghosts = append(cf.Ghosts, &RawGhost{Decl: rest, Name: m[3], Const: isConst})
		case "pred", "spec":
			// pred name(params) := body ; spec name(params) T := body
			i := strings.Index(rest, ":=")
			if i < 0 {
				return fmt.Errorf("%s:%d: pred/spec without :=", path, ln)
			}
			hdr, body := strings.TrimSpace(rest[:i]), strings.TrimSpace(rest[i+2:])
			sp := &RawSpec{Kind: word, Line: ln, File: path, Body: body}
			for {
				if strings.HasPrefix(hdr, "pure ") {
					sp.Pure = true
					hdr = strings.TrimSpace(hdr[5:])
				} else if strings.HasPrefix(hdr, "rec ") {
					sp.Rec = true
					sp.Pure = true
					hdr = strings.TrimSpace(hdr[4:])
				} else if strings.HasPrefix(hdr, "opaque ") {
					sp.Opaque = true
					hdr = strings.TrimSpace(hdr[7:])
				} else {
					break
				}
			}
			m := reFuncHdr.FindStringSubmatch("func " + hdr)
			if m == nil {
				return fmt.Errorf("%s:%d: bad pred/spec header %q", path, ln, hdr)
			}
			sp.Name, sp.Params, sp.Result = m[3], m[4], strings.TrimSpace(m[5])
			if word == "pred" {
				sp.Result = "bool"
			}
			cf.Specs = append(cf.Specs, sp)
			cur, curLemma = nil, nil
		case "lemma":
			// lemma name(params)
			m := reFuncHdr.FindStringSubmatch("func " + rest)
			if m == nil {
				return fmt.Errorf("%s:%d: bad lemma header", path, ln)
			}
			curLemma = &RawLemma{Name: m[3], Params: m[4], Line: ln, File: path}
			cf.Lemmas = append(cf.Lemmas, curLemma)
			cur = nil
		case "func":
			m := reFuncHdr.FindStringSubmatch(line)
			if m == nil {
				return fmt.Errorf("%s:%d: bad func header %q", path, ln, line)
			}
			cur = &RawContract{File: path, Line: ln, Header: line, Name: m[3]}
			params := strings.TrimSpace(m[4])
			if m[1] != "" {
				recv := strings.TrimSpace(m[2])
				// "d *decoder"
				parts := strings.Fields(recv)
				if len(parts) != 2 {
					return fmt.Errorf("%s:%d: receiver must be named: %q", path, ln, recv)
				}
				cur.Recv = parts[1]
				if params != "" {
					params = recv + ", " + params
				} else {
					params = recv
				}
			}
			cur.Params = params
			res := strings.TrimSpace(m[5])
			res = strings.TrimPrefix(res, "(")
			res = strings.TrimSuffix(res, ")")
			cur.Results = strings.TrimSpace(res)
			cf.Contracts = append(cf.Contracts, cur)
			curLemma = nil
		default:
			if curLemma != nil {
				switch word {
				case "hyp":
					curLemma.Hyps = append(curLemma.Hyps, rest)
				case "concl":
					curLemma.Concl = rest
				case "props":
					curLemma.Props = strings.Fields(strings.ReplaceAll(rest, ",", " "))
				case "reveal":
					curLemma.Reveal = append(curLemma.Reveal, strings.Fields(strings.ReplaceAll(rest, ",", " "))...)
				case "timeout":
					fmt.Sscanf(rest, "%d", &curLemma.TimeoutS)
				case "induction":
					curLemma.Induction = strings.Fields(rest)
				case "cases":
					curLemma.Cases = strings.TrimSpace(rest)
				default:
					return fmt.Errorf("%s:%d: unknown lemma clause %q", path, ln, word)
				}
				return nil
			}
			if cur == nil {
				return fmt.Errorf("%s:%d: clause %q outside a func contract", path, ln, word)
			}
			switch word {
			case "props":
				cur.Props = strings.Fields(strings.ReplaceAll(rest, ",", " "))
			case "reveal":
				cur.Reveal = append(cur.Reveal, strings.Fields(strings.ReplaceAll(rest, ",", " "))...)
			case "nosubtype":
				cur.NoSubtype = true
			case "slow":
				// slow <label> <seconds>: solver budget override for one clause
				var lab string
				var secs int
				if _, err := fmt.Sscanf(rest, "%s %d", &lab, &secs); err == nil {
					if cur.Slow == nil {
						cur.Slow = map[string]int{}
					}
					cur.Slow[lab] = secs
				}
			case "trusted":
				cur.Trusted = true
			case "inline":
				cur.Inline = true
			case "patterns":
				// "patterns inner": range quantifiers of this contract trigger on the slice element
				cur.InnerPatterns = strings.TrimSpace(rest) == "inner"
			case "nullable":
				cur.Nullable = append(cur.Nullable, strings.Fields(strings.ReplaceAll(rest, ",", " "))...)
			case "locals":
				cur.Locals = rest
			case "split":
				cur.Split = rest
			case "requires", "ensures", "assigns", "assume", "use", "usepost", "gassign":
				c := &RawClause{Kind: word, Loop: -1, Line: ln}
				c.Label, c.Props, c.Text = splitLabel(rest)
				if !layerSkips(c.Props) {
					cur.Clauses = append(cur.Clauses, c)
				}
			case "callsite":
				// callsite <callee> [label] {props} expr: must hold whenever the function calls <callee>
				fs := strings.Fields(rest)
				if len(fs) < 2 {
					return fmt.Errorf("%s:%d: bad callsite clause", path, ln)
				}
				c := &RawClause{Kind: "callsite", Loop: -1, Line: ln, Callee: fs[0]}
				c.Label, c.Props, c.Text = splitLabel(strings.TrimSpace(rest[len(fs[0]):]))
				cur.Clauses = append(cur.Clauses, c)
			case "loop":
				// loop N invariant|decreases|assigns [label:] expr
				fs := strings.Fields(rest)
				if len(fs) < 3 {
					return fmt.Errorf("%s:%d: bad loop clause", path, ln)
				}
				var n int
				if _, err := fmt.Sscanf(fs[0], "%d", &n); err != nil {
					return fmt.Errorf("%s:%d: bad loop ordinal", path, ln)
				}
				kind := fs[1]
				r := strings.TrimSpace(rest[strings.Index(rest, kind)+len(kind):])
				c := &RawClause{Kind: kind, Loop: n, Line: ln}
				c.Label, c.Props, c.Text = splitLabel(r)
				if !layerSkips(c.Props) {
					cur.Clauses = append(cur.Clauses, c)
				}
			default:
				return fmt.Errorf("%s:%d: unknown clause %q", path, ln, word)
			}
		}
		return nil
	}
	for sc.Scan() {
		lineNo++
		line := sc.Text()
		t := strings.TrimSpace(line)
		if strings.HasPrefix(t, "package ") {
			cf.PkgName = strings.TrimSpace(strings.TrimPrefix(t, "package "))
			continue
		}
		if !strings.HasPrefix(t, "//@") {
			continue
		}
		body := strings.TrimPrefix(t, "//@")
		if strings.HasPrefix(body, "@") { // //@@ comment
			continue
		}
		trim := strings.TrimSpace(body)
		// continuation lines start with "| "
		if strings.HasPrefix(trim, "|") {
			pend += " " + strings.TrimSpace(trim[1:])
			continue
		}
		if pend != "" {
			if err := flush(pend, pendLine); err != nil {
				return nil, err
			}
		}
		pend, pendLine = trim, lineNo
	}
	if pend != "" {
		if err := flush(pend, pendLine); err != nil {
			return nil, err
		}
	}
	return cf, sc.Err()
}

// splitLabel parses "[label] {C01,C02} expr" prefixes.
// activeLayer: the property being checked. A clause that carries its own
// property tags {Cxx ...} belongs to a contract layer: it is part of the
// contract (assumed at call sites, proved in the body) only in runs for one of
// those properties. Untagged clauses are part of every run.
var activeLayer string

// layerMark is appended to clause-level property tags: obligations that stem
// from a tagged clause carry it.
const layerMark = "@layer"

func layerSkips(props []string) bool {
	if true {
		return false // layers are applied per VC (vc.clauses)
	}
	for _, p := range props {
		if p == activeLayer {
			return false
		}
	}
	return true
}

func splitLabel(s string) (label string, props []string, expr string) {
	s = strings.TrimSpace(s)
	for {
		if strings.HasPrefix(s, "[") {
			if i := strings.Index(s, "]"); i > 0 {
				label = strings.TrimSpace(s[1:i])
				s = strings.TrimSpace(s[i+1:])
				continue
			}
		}
		if strings.HasPrefix(s, "{") {
			if i := strings.Index(s, "}"); i > 0 {
				props = append(strings.Fields(strings.ReplaceAll(s[1:i], ",", " ")), layerMark)
				s = strings.TrimSpace(s[i+1:])
				continue
			}
		}
		break
	}
	return label, props, s
}

// ---------------------------------------------------------------------------
// Lowering of spec expression text to Go expression text.

// lowerExpr rewrites `a ==> b`, `forall x in lo..hi :: body`,
// `exists x in lo..hi :: body`, `forall x T :: body` into Go calls.
func lowerExpr(s string) (string, error) {
	s = strings.TrimSpace(s)
	// 1. handle parenthesised groups recursively so that quantifier bodies
	// extend to the end of their group.
	var out strings.Builder
	i := 0
	depth := 0
	start := -1
	// First, rewrite inner groups.
	for i < len(s) {
		c := s[i]
		switch c {
		case '"':
			j := i + 1
			for j < len(s) && s[j] != '"' {
				if s[j] == '\\' {
					j++
				}
				j++
			}
			if depth == 0 {
				out.WriteString(s[i:min(j+1, len(s))])
			}
			i = j + 1
			continue
		case '(':
			if depth == 0 {
				start = i
			}
			depth++
		case ')':
			depth--
			if depth < 0 {
				return "", fmt.Errorf("unbalanced ')' in %q", s)
			}
			if depth == 0 {
				inner, err := lowerExprList(s[start+1 : i])
				if err != nil {
					return "", err
				}
				out.WriteString("(" + inner + ")")
				i++
				continue
			}
		default:
			if depth == 0 {
				out.WriteByte(c)
			}
		}
		i++
	}
	if depth != 0 {
		return "", fmt.Errorf("unbalanced '(' in %q", s)
	}
	flat := out.String()
	return lowerFlat(flat)
}

// lowerExprList lowers a comma separated list (call arguments) at top level.
func lowerExprList(s string) (string, error) {
	parts := splitTop(s, ",")
	for k, p := range parts {
		// do not lower func literal parameter lists etc.
		lp, err := lowerExpr(p)
		if err != nil {
			return "", err
		}
		parts[k] = lp
	}
	return strings.Join(parts, ", "), nil
}

// splitTop splits s at sep occurrences that are outside (), [], {} and strings.
func splitTop(s, sep string) []string {
	var parts []string
	depth := 0
	last := 0
	for i := 0; i < len(s); i++ {
		switch s[i] {
		case '"':
			i++
			for i < len(s) && s[i] != '"' {
				if s[i] == '\\' {
					i++
				}
				i++
			}
		case '(', '[', '{':
			depth++
		case ')', ']', '}':
			depth--
		default:
			if depth == 0 && strings.HasPrefix(s[i:], sep) {
				parts = append(parts, s[last:i])
				last = i + len(sep)
				i += len(sep) - 1
			}
		}
	}
	parts = append(parts, s[last:])
	return parts
}

var reQuant = regexp.MustCompile(`^(forall|exists)\s+([A-Za-z_][A-Za-z0-9_]*)\s+in\s+(.*)$`)
var reQuantT = regexp.MustCompile(`^(forall|exists)\s+([A-Za-z_][A-Za-z0-9_]*)\s+([A-Za-z_][A-Za-z0-9_.]*)\s*$`)

// lowerFlat lowers an expression whose parenthesised groups are already lowered.
func lowerFlat(s string) (string, error) {
	s = strings.TrimSpace(s)
	// quantifier: forall x in lo..hi :: body
	if strings.HasPrefix(s, "forall ") || strings.HasPrefix(s, "exists ") {
		parts := splitTop(s, "::")
		if len(parts) < 2 {
			return "", fmt.Errorf("quantifier without '::' in %q", s)
		}
		head := strings.TrimSpace(parts[0])
		body := strings.Join(parts[1:], "::")
		lb, err := lowerFlat(body)
		if err != nil {
			return "", err
		}
		if m := reQuant.FindStringSubmatch(head); m != nil {
			rng := splitTop(m[3], "..")
			if len(rng) != 2 {
				return "", fmt.Errorf("bad range in %q", head)
			}
			fn := "govcForall"
			if m[1] == "exists" {
				fn = "govcExists"
			}
			return fmt.Sprintf("%s(%s, %s, func(%s int) bool { return %s })", fn, strings.TrimSpace(rng[0]), strings.TrimSpace(rng[1]), m[2], lb), nil
		}
		if m := reQuantT.FindStringSubmatch(head); m != nil {
			fn := "govcForallT"
			if m[1] == "exists" {
				fn = "govcExistsT"
			}
			return fmt.Sprintf("%s(func(%s %s) bool { return %s })", fn, m[2], m[3], lb), nil
		}
		return "", fmt.Errorf("bad quantifier head %q", head)
	}
	// equivalence binds loosest, then implication (right associative)
	parts := splitTop(s, "<==>")
	if len(parts) == 2 {
		a, err := lowerFlat(parts[0])
		if err != nil {
			return "", err
		}
		b, err := lowerFlat(parts[1])
		if err != nil {
			return "", err
		}
		return fmt.Sprintf("govcIff(%s, %s)", a, b), nil
	}
	parts = splitTop(s, "==>")
	if len(parts) > 1 {
		last, err := lowerFlat(parts[len(parts)-1])
		if err != nil {
			return "", err
		}
		acc := last
		for k := len(parts) - 2; k >= 0; k-- {
			l, err := lowerFlat(parts[k])
			if err != nil {
				return "", err
			}
			acc = fmt.Sprintf("govcImp(%s, %s)", l, acc)
		}
		return acc, nil
	}
	return s, nil
}

// ---------------------------------------------------------------------------
// Overlay generation.

const overlayPrelude = `
func govcOld[T any](x T) T                                { return x }
func govcImp(a, b bool) bool                              { return !a || b }
func govcIff(a, b bool) bool                              { return a == b }
func govcIte[T any](c bool, a, b T) T                     { if c { return a }; return b }
func govcForall(lo, hi int, f func(int) bool) bool        { return true }
func govcExists(lo, hi int, f func(int) bool) bool        { return true }
func govcForallT[T any](f func(T) bool) bool              { return true }
func govcExistsT[T any](f func(T) bool) bool              { return true }
func govcClause(id int, b bool) bool                      { return b }
func govcTerm[T any](id int, x T) T                       { return x }
func govcLoc[T any](id int, x T) T                        { return x }
func govcFresh[T any](x T) bool                           { return true }
func govcTypeIs[T any](x interface{}) bool                { _, ok := x.(T); return ok }
func govcSame[T any](a, b T) bool                         { return true }
func govcIsNaN(x float64) bool                            { return x != x }
func govcRVNumField(m int) int                            { return 0 }
func govcRVClass(m, i int) int                            { return 0 }
func govcRVWidth(m, i int) int                            { return 0 }
func govcRVEClass(m, i int) int                           { return 0 }
func govcRVEWidth(m, i int) int                           { return 0 }
func govcRVTypeTag(m, i int) int                          { return 0 }
func govcRVRow(m, i int) int                              { return 0 }
func govcTypeTag[T any]() int                             { return 0 }
func govcIsLE(x interface{}) bool                         { return false }
func govcIsBE(x interface{}) bool                         { return false }
func govcIfaceObj(x interface{}) int                      { return 0 }
func govcAllFields[T any](p *T) int                       { return 0 }
func govcIsEOF(err error) bool                            { return false }
func govcIsUEOF(err error) bool                           { return false }
func govcErrIs[T any](err error, target T) bool           { return false }
func govcSameBase[T any](a, b []T) bool                   { return true }
func govcOffset[T any](a []T) int                         { return 0 }
func govcGassign[T any](id int, target, value T, cond bool) int { return 0 }
func govcF32bits(u uint32) float32                        { return 0 }
func govcBinsize(x interface{}) int                       { return 0 }
func govcRtypemsg(t interface{}) int                      { return 0 }
func govcTagsize(tag int) int                             { return 0 }
func govcF64bits(u uint64) float64                        { return 0 }

const govcStar = -1
`

// genOverlay produces the Go source of the overlay file of one package.
func genOverlay(cf *ContractFile) (string, error) {
	var b strings.Builder
	b.WriteString("//go:build verif && go1.18\n\n")
	fmt.Fprintf(&b, "package %s\n\n", cf.PkgName)
	// imports: only those referenced
	body := &strings.Builder{}
	body.WriteString(overlayPrelude)
	for _, im := range cf.Imports {
		if strings.Trim(im, `"`) == "time" {
			body.WriteString("func govcTsec(t time.Time) int { return int(t.Unix()) }\nfunc govcTns(t time.Time) int { return t.Nanosecond() }\nfunc govcTzoff(t time.Time) int { _, o := t.Zone(); return o }\nfunc govcTzid(t time.Time) int { return 0 }\n")
		}
		if strings.Trim(im, `"`) == "reflect" {
			body.WriteString("func govcIfaceOf(v reflect.Value) interface{} { return v.Interface() }\n")
			body.WriteString("func govcRvmt(v reflect.Value) int { return 0 }\nfunc govcRvfld(v reflect.Value) int { return 0 }\nfunc govcRvobj(v reflect.Value) int { return 0 }\nfunc govcRvcls(v reflect.Value) int { return 0 }\nfunc govcRvttag(v reflect.Value) int { return 0 }\nfunc govcRvstate(v reflect.Value) int { return 0 }\nfunc govcRvwid(v reflect.Value) int { return 0 }\nfunc govcRvecls(v reflect.Value) int { return 0 }\nfunc govcRvewid(v reflect.Value) int { return 0 }\nfunc govcRvvalid(v reflect.Value) bool { return v.IsValid() }\nfunc govcRvismsg(v reflect.Value, m int) bool { return true }\n")
			body.WriteString("func govcMsgOf[T any](v reflect.Value) T { return v.Interface().(T) }\n")
			body.WriteString("func govcRvlen(v reflect.Value) int { return 0 }\nfunc govcRvisnil(v reflect.Value) bool { return false }\nfunc govcRvint(v reflect.Value) int { return 0 }\nfunc govcRvflt(v reflect.Value) float64 { return 0 }\nfunc govcRvfieldof(v reflect.Value, i int) reflect.Value { return v }\nfunc govcRvcell(v reflect.Value) int { return 0 }\nfunc govcRvindirect(v reflect.Value) reflect.Value { return reflect.Indirect(v) }\nfunc govcRvmsgarg(v reflect.Value) bool { return true }\nfunc govcRvstr(v reflect.Value) string { return \"\" }\n")
		}
	}
	{
		hasT, hasR := false, false
		for _, im := range cf.Imports {
			hasT = hasT || strings.Trim(im, `"`) == "time"
			hasR = hasR || strings.Trim(im, `"`) == "reflect"
		}
		if hasT && hasR {
			body.WriteString("func govcRvtime(v reflect.Value) time.Time { return time.Time{} }\nfunc govcRvtimeat(v reflect.Value, c int) time.Time { return time.Time{} }\n")
		}
	}
	for _, d := range cf.Decls {
		body.WriteString(d + "\n")
	}
	for _, g := range cf.Ghosts {
		fmt.Fprintf(body, "%s { panic(0) }\n", g.Decl)
	}
	for _, sp := range cf.Specs {
		if sp.Generated {
			continue
		}
		lb, err := lowerExpr(sp.Body)
		if err != nil {
			return "", fmt.Errorf("%s:%d: %v", sp.File, sp.Line, err)
		}
		fmt.Fprintf(body, "func %s(%s) %s { return %s }\n", sp.Name, sp.Params, sp.Result, rewriteBuiltins(lb))
	}
	for n, c := range cf.Contracts {
		c.GenName = fmt.Sprintf("govcC_%d_%s", n, c.Name)
		params := c.Params
		if c.Results != "" {
			if params != "" {
				params += ", "
			}
			params += c.Results
		}
		if c.Locals != "" {
			if params != "" {
				params += ", "
			}
			params += c.Locals
		}
		fmt.Fprintf(body, "func %s(%s) {\n", c.GenName, params)
		for id, cl := range c.Clauses {
			cl.Id = id
			switch cl.Kind {
			case "assigns":
				// list of locations
				for _, loc := range splitTop(cl.Text, ",") {
					loc = strings.ReplaceAll(strings.TrimSpace(loc), ", *)", ", govcStar)")
					if loc == "" || loc == "nothing" {
						continue
					}
					if strings.HasSuffix(loc, "[..]") {
						loc = strings.TrimSuffix(loc, "[..]")
						fmt.Fprintf(body, "\t_ = govcLoc(%d, %s)\n", -(id + 1), rewriteBuiltins(loc))
					} else {
						fmt.Fprintf(body, "\t_ = govcLoc(%d, %s)\n", id, rewriteBuiltins(loc))
					}
				}
			case "dispatches":
				// structural clause: no expression
			case "gassign":
				// ghost assignment at normal return: G(keys) := value [when cond]
				txt, cond := cl.Text, "true"
				if i := strings.LastIndex(txt, " when "); i >= 0 {
					cond = strings.TrimSpace(txt[i+len(" when "):])
					txt = txt[:i]
				}
				parts := strings.SplitN(txt, ":=", 2)
				if len(parts) != 2 {
					return "", fmt.Errorf("%s:%d: gassign needs `ghost(keys) := value [when cond]`", c.File, cl.Line)
				}
				lv, err := lowerExpr(parts[1])
				if err != nil {
					return "", fmt.Errorf("%s:%d: %v", c.File, cl.Line, err)
				}
				lc, err := lowerExpr(cond)
				if err != nil {
					return "", fmt.Errorf("%s:%d: %v", c.File, cl.Line, err)
				}
				fmt.Fprintf(body, "\t_ = govcGassign(%d, %s, %s, %s)\n", id, rewriteBuiltins(strings.ReplaceAll(strings.TrimSpace(parts[0]), ", *)", ", govcStar)")), rewriteBuiltins(lv), rewriteBuiltins(lc))
			case "use", "usepost":
				fmt.Fprintf(body, "\t_ = govcClause(%d, lemma_%s)\n", id, rewriteBuiltins(strings.TrimSpace(cl.Text)))
			case "decreases":
				lb, err := lowerExpr(cl.Text)
				if err != nil {
					return "", fmt.Errorf("%s:%d: %v", c.File, cl.Line, err)
				}
				fmt.Fprintf(body, "\t_ = govcTerm(%d, %s)\n", id, rewriteBuiltins(lb))
			default:
				lb, err := lowerExpr(cl.Text)
				if err != nil {
					return "", fmt.Errorf("%s:%d: %v", c.File, cl.Line, err)
				}
				fmt.Fprintf(body, "\t_ = govcClause(%d, %s)\n", id, rewriteBuiltins(lb))
			}
		}
		if c.Split != "" {
			for k, ex := range strings.Fields(c.Split)[1:] {
				fmt.Fprintf(body, "\t_ = govcTerm(%d, %s)\n", 9000+k, ex)
			}
		}
		body.WriteString("}\n")
	}
	for _, l := range cf.Lemmas {
		// the lemma as a predicate (hypotheses imply conclusion), for `use` clauses
		var hs []string
		for _, h := range l.Hyps {
			lb, err := lowerExpr(h)
			if err != nil {
				return "", fmt.Errorf("%s:%d: %v", l.File, l.Line, err)
			}
			hs = append(hs, "("+rewriteBuiltins(lb)+")")
		}
		lc, err := lowerExpr(l.Concl)
		if err != nil {
			return "", fmt.Errorf("%s:%d: %v", l.File, l.Line, err)
		}
		hyp := "true"
		if len(hs) > 0 {
			hyp = strings.Join(hs, " && ")
		}
		fmt.Fprintf(body, "func lemma_%s(%s) bool { return govcImp(%s, %s) }\n", l.Name, l.Params, hyp, rewriteBuiltins(lc))
		cf.Specs = append(cf.Specs, &RawSpec{Kind: "pred", Name: "lemma_" + l.Name, Params: l.Params, Result: "bool", Line: l.Line, File: l.File, Generated: true})
	}
	for n, l := range cf.Lemmas {
		l.GenName = fmt.Sprintf("govcL_%d_%s", n, l.Name)
		fmt.Fprintf(body, "func %s(%s) {\n", l.GenName, l.Params)
		for k, h := range l.Hyps {
			lb, err := lowerExpr(h)
			if err != nil {
				return "", fmt.Errorf("%s:%d: %v", l.File, l.Line, err)
			}
			fmt.Fprintf(body, "\t_ = govcClause(%d, %s)\n", k, rewriteBuiltins(lb))
		}
		lb, err := lowerExpr(l.Concl)
		if err != nil {
			return "", fmt.Errorf("%s:%d: %v", l.File, l.Line, err)
		}
		fmt.Fprintf(body, "\t_ = govcClause(%d, %s)\n", 1000, rewriteBuiltins(lb))
		body.WriteString("}\n")
	}
	text := body.String()
	var imps []string
	for _, im := range cf.Imports {
		// forms: "io" | alias "path"
		fs := strings.Fields(im)
		alias := ""
		path := strings.Trim(fs[len(fs)-1], `"`)
		if len(fs) == 2 {
			alias = fs[0]
		} else {
			alias = path[strings.LastIndex(path, "/")+1:]
		}
		if regexp.MustCompile(`\b` + regexp.QuoteMeta(alias) + `\.`).MatchString(text) {
			imps = append(imps, im)
		}
	}
	sort.Strings(imps)
	if len(imps) > 0 {
		b.WriteString("import (\n")
		for _, im := range imps {
			fmt.Fprintf(&b, "\t%s\n", im)
		}
		b.WriteString(")\n")
	}
	b.WriteString(text)
	return b.String(), nil
}

var reBuiltin = regexp.MustCompile(`\b(old|ite|fresh|same|isNaN|ifaceOf|samebase|offset|isEOF|isUEOF|iserr|isLE|isBE|ifaceobj|allfields|rvmt|rvfld|rvobj|rvcls|rvttag|rvstate|rvwid|rvecls|rvewid|rvvalid|rvismsg|rvlen|rvisnil|binsize|tagsize|rtypemsg|rvindirect|rvmsgarg|rvstr|f32bits|f64bits|rvtimeat|rvcell|rvtime|rvint|rvflt|rvfieldof|tsec|tns|tzoff|tzid|rvNumField|rvClass|rvWidth|rvEClass|rvEWidth|rvTypeTag|rvRow)\(`)
var reTypeIs = regexp.MustCompile(`\btypeis\[`)
var reMsgOf = regexp.MustCompile(`\bmsgOf\[`)
var reTypeTag = regexp.MustCompile(`\btypetag\[`)

// rewriteBuiltins maps the short spec builtins to their overlay names.
func rewriteBuiltins(s string) string {
	s = reBuiltin.ReplaceAllStringFunc(s, func(m string) string {
		switch m {
		case "old(":
			return "govcOld("
		case "ite(":
			return "govcIte("
		case "fresh(":
			return "govcFresh("
		case "same(":
			return "govcSame("
		case "isNaN(":
			return "govcIsNaN("
		case "isEOF(":
			return "govcIsEOF("
		case "isUEOF(":
			return "govcIsUEOF("
		case "iserr(":
			return "govcErrIs("
		case "rvmt(":
			return "govcRvmt("
		case "rvfld(":
			return "govcRvfld("
		case "rvobj(":
			return "govcRvobj("
		case "rvcls(":
			return "govcRvcls("
		case "rvstate(":
			return "govcRvstate("
		case "rvttag(":
			return "govcRvttag("
		case "rvwid(":
			return "govcRvwid("
		case "rvecls(":
			return "govcRvecls("
		case "rvewid(":
			return "govcRvewid("
		case "rvvalid(":
			return "govcRvvalid("
		case "rvismsg(":
			return "govcRvismsg("
		case "tsec(":
			return "govcTsec("
		case "tns(":
			return "govcTns("
		case "tzoff(":
			return "govcTzoff("
		case "tzid(":
			return "govcTzid("
		case "ifaceobj(":
			return "govcIfaceObj("
		case "allfields(":
			return "govcAllFields("
		case "isLE(":
			return "govcIsLE("
		case "isBE(":
			return "govcIsBE("
		case "rvNumField(":
			return "govcRVNumField("
		case "rvClass(":
			return "govcRVClass("
		case "rvWidth(":
			return "govcRVWidth("
		case "rvEClass(":
			return "govcRVEClass("
		case "rvEWidth(":
			return "govcRVEWidth("
		case "rvTypeTag(":
			return "govcRVTypeTag("
		case "rvRow(":
			return "govcRVRow("
		case "samebase(":
			return "govcSameBase("
		case "rvtime(":
			return "govcRvtime("
		case "rvtimeat(":
			return "govcRvtimeat("
		case "rvstr(":
			return "govcRvstr("
		case "rvindirect(":
			return "govcRvindirect("
		case "rvisnil(":
			return "govcRvisnil("
		case "rvlen(":
			return "govcRvlen("
		case "rtypemsg(":
			return "govcRtypemsg("
		case "binsize(":
			return "govcBinsize("
		case "tagsize(":
			return "govcTagsize("
		case "rvmsgarg(":
			return "govcRvmsgarg("
		case "f32bits(":
			return "govcF32bits("
		case "f64bits(":
			return "govcF64bits("
		case "rvcell(":
			return "govcRvcell("
		case "rvint(":
			return "govcRvint("
		case "rvflt(":
			return "govcRvflt("
		case "rvfieldof(":
			return "govcRvfieldof("
		case "offset(":
			return "govcOffset("
		case "ifaceOf(":
			return "govcIfaceOf("
		}
		return m
	})
	s = reTypeIs.ReplaceAllString(s, "govcTypeIs[")
	s = reMsgOf.ReplaceAllString(s, "govcMsgOf[")
	s = reTypeTag.ReplaceAllString(s, "govcTypeTag[")
	return s
}
