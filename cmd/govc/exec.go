package main

// Symbolic execution of go/ssa functions into verification conditions.

import (
	"fmt"
	"go/token"
	"go/types"
	"sort"
	"strings"

	"golang.org/x/tools/go/ssa"
)

type State struct {
	heap  *Heap
	alloc string
	cond  string
}

func (s *State) clone() *State {
	return &State{heap: s.heap.clone(), alloc: s.alloc, cond: s.cond}
}

type Obligation struct {
	Name       string
	Kind       string
	Fn         string
	Props      []string
	Prefix     int // number of script lines visible
	Cond       string
	Goal       string
	Pos        string
	Extra      []string             // extra declarations/assertions local to this obligation
	TimeoutMs  int                  // per-obligation solver budget override (0: tier default)
	Expand     func() []*Obligation // on failure: finer obligations that localise the failure
	Batch      string               // obligations with the same batch key share one incremental solver run
	SubLabels  []string             // optional names of the sub-goals (reported when one fails)
	ReplaySrc  string               // engine-provided in-package test that replays the obligation on the real code
	localSlice bool                 // (solver driver) build the query with the aggressive local slice
	noLocal    bool
	NoStatics  bool       // the query carries its own selection of table axioms in Extra
	Subs       []*SubGoal // when non-empty: the obligation is the conjunction of these goals (one per return site)
	Expect     string     // "unsat" normally; "sat" for vacuity covers
	// results
	Status  string
	Solver  string
	Seconds float64
	Model   string
	Output  string
}

// SubGoal: one path-specific part of an obligation.
type SubGoal struct {
	Prefix int
	Cond   string
	Goal   string
	Extra  []string
}

const (
	rObj = iota
	rGlobal
)

type PtrDesc struct {
	Root  int
	Ref   string     // object reference term (rObj)
	RootT types.Type // pointee type of the root object
	Path  string     // field path from root
	T     types.Type // type stored at this location
	// element of an array (embedded array field, standalone array or slice backing array)
	InElem bool
	Aid    string
	Idx    string
	ElemT  types.Type
	Sub    string // path inside the element
	Glob   *ssa.Global
	GIdx   []string // index path into a global array (possibly nested)
}

type VC struct {
	rangeDone    map[string]bool // range-form side axioms already emitted
	layer        string          // property whose tagged clauses are active in this VC ("" = base contract)
	noRangeForms bool
	callsiteHits map[*Clause]int
	w            *World
	fn           *ssa.Function
	contract     *Contract
	prelude      []string
	script       []string
	declared     map[string]bool
	nfresh       int
	obls         []*Obligation
	pureDone     map[*SpecFn]bool
	heapSort     map[string]string
	strDone      map[int]bool
	strSrc       map[string]*strSource
	strCat       map[string][2]Val
	tableDone    map[string]bool
	ordinals     map[string]int
	frames       int
	trusted      map[string]bool // assumptions used (extern specs, trusted contracts)
	outside      []string
	inlineDepth  int
	safetyProps  []string
	curProps     []string
	snapArrays   map[string][]string
	entry        *State
	ghostConst   map[string]bool
	nonNil       map[string]bool
	curContract  *Contract
	ghostSorts   map[string]string
	revealed     map[string]bool
	label        string
	ifacePtr     map[string]*PtrDesc
	readLog      map[string]bool
	pureReads    []string
	hiddenTables map[string]bool
	defs         map[string]string // named definitions (symbol -> term)
	defW         map[string]int    // bit-vector width of named definitions
	storeDefs    map[string]storeInfo
	noSimplify   bool
	untracked    map[string]bool      // heaps modified through paths that do not record keys
	heapMods     map[string][]heapMod // keys (terms) at which tracked modifications happened
	effCall      *ssa.CallCommon
	effFrame     *Frame
	durParts     map[string][2]string // time.Duration terms known as (seconds, nanosecond difference)
	inlineMode   bool                 // no named intermediate definitions, no assumptions (pure term construction)
	errAxDone    bool
	rtypeOf      map[string]Val
	mapIters     map[ssa.Value]*mapIter
	statics      []string // initial contents of static table objects (heaps used by this VC)
	freshKeys    map[string]bool
	dirty        map[string]bool
	lines        []lineInfo // parallel to script
}

// lineInfo classifies a script line for query slicing.
type lineInfo struct {
	def   string // non-empty: the line is "(assert (= def term))" introducing def
	axiom string // non-empty: quantified definitional axiom for array symbol axiom
}

type strSource struct {
	arr string // element array snapshot term
	off string
}

func newVC(w *World, fn *ssa.Function, c *Contract) *VC {
	return &VC{w: w, layer: w.layer, fn: fn, contract: c, declared: map[string]bool{}, pureDone: map[*SpecFn]bool{},
		heapSort: map[string]string{}, strDone: map[int]bool{}, strSrc: map[string]*strSource{}, strCat: map[string][2]Val{},
		tableDone: map[string]bool{}, ordinals: map[string]int{}, trusted: map[string]bool{}, snapArrays: map[string][]string{},
		nonNil: map[string]bool{}, ghostSorts: map[string]string{}, revealed: map[string]bool{}, ifacePtr: map[string]*PtrDesc{}, rtypeOf: map[string]Val{}, freshKeys: map[string]bool{}, dirty: map[string]bool{}, durParts: map[string][2]string{}, hiddenTables: map[string]bool{}, defs: map[string]string{}, defW: map[string]int{}, storeDefs: map[string]storeInfo{}, untracked: map[string]bool{}, heapMods: map[string][]heapMod{}}
}

type outsideSubset struct{ msg string }

func (vc *VC) unsupported(format string, a ...interface{}) {
	panic(outsideSubset{fmt.Sprintf(format, a...)})
}

func (vc *VC) fnName() string {
	if vc.fn != nil {
		return vc.fn.String()
	}
	return vc.label
}

func (vc *VC) fresh(prefix string) string {
	vc.nfresh++
	return smtName(fmt.Sprintf("%s!%d", prefix, vc.nfresh))
}

func (vc *VC) declare(name, sort string) {
	if vc.declared[name] {
		return
	}
	vc.declared[name] = true
	vc.prelude = append(vc.prelude, fmt.Sprintf("(declare-const %s %s)", name, sort))
}

func (vc *VC) declareFun(name string, args []string, res string) {
	if vc.declared[name] {
		return
	}
	vc.declared[name] = true
	vc.prelude = append(vc.prelude, fmt.Sprintf("(declare-fun %s (%s) %s)", name, strings.Join(args, " "), res))
}

func (vc *VC) freshConst(prefix, sort string) string {
	n := vc.fresh(prefix)
	vc.declare(n, sort)
	return n
}

func (vc *VC) assume(cond, fact string) {
	if vc.inlineMode {
		return
	}
	// one assertion per top-level conjunct: finer query slicing
	for _, part := range flattenAnd(fact) {
		f := imp(cond, part)
		if f == "true" {
			continue
		}
		vc.script = append(vc.script, "(assert "+f+")")
	}
}

// flattenAnd splits nested (and ...) terms into their conjuncts.
func flattenAnd(t string) []string {
	op, args, ok := splitSexp(t)
	if !ok || op != "and" {
		return []string{t}
	}
	var out []string
	for _, a := range args {
		out = append(out, flattenAnd(a)...)
	}
	return out
}

// define introduces a named constant equal to term (keeps VC size linear).
func (vc *VC) define(prefix, sort, term string) string {
	if len(term) < 24 || vc.inlineMode {
		return term
	}
	n := vc.freshConst(prefix, sort)
	vc.script = append(vc.script, "(assert (= "+n+" "+term+"))")
	vc.noteDef(n, sort, term)
	return n
}

func (vc *VC) noteDef(n, sort, term string) {
	var w int
	if _, err := fmt.Sscanf(sort, "(_ BitVec %d)", &w); err == nil {
		vc.defs[n] = term
		vc.defW[n] = w
	}
}

func (vc *VC) oblige(st *State, kind, label, goal string, pos token.Pos, props []string) {
	name := vc.fnName() + "#" + kind
	if label != "" {
		name += "." + label
	}
	key := name
	vc.ordinals[key]++
	if n := vc.ordinals[key]; n > 1 || label == "" {
		name = fmt.Sprintf("%s.%d", name, vc.ordinals[key])
	}
	if props == nil {
		props = vc.curProps
	}
	o := &Obligation{Name: name, Kind: kind, Fn: vc.fnName(), Props: props, Prefix: len(vc.script), Cond: st.cond, Goal: goal, Expect: "unsat"}
	if pos.IsValid() {
		o.Pos = vc.w.Fset.Position(pos).String()
	}
	if goal == "true" {
		o.Status, o.Solver = "unsat", "syntactic"
	}
	vc.obls = append(vc.obls, o)
	// after being checked, the fact may be assumed on this path
	vc.assume(st.cond, goal)
}

// obligeSubs records an obligation that is the conjunction of path-specific goals.
func (vc *VC) obligeSubs(kind, label string, subs []*SubGoal, trivial bool, pos token.Pos, props []string) {
	name := vc.fnName() + "#" + kind
	if label != "" {
		name += "." + label
	}
	vc.ordinals[name]++
	if n := vc.ordinals[name]; n > 1 || label == "" {
		name = fmt.Sprintf("%s.%d", name, n)
	}
	if props == nil {
		props = vc.curProps
	}
	o := &Obligation{Name: name, Kind: kind, Fn: vc.fnName(), Props: props, Subs: subs, Expect: "unsat", Prefix: len(vc.script), Cond: "true", Goal: "true"}
	if pos.IsValid() {
		o.Pos = vc.w.Fset.Position(pos).String()
	}
	if trivial {
		o.Status, o.Solver = "unsat", "syntactic"
	}
	vc.obls = append(vc.obls, o)
}

// ---------------------------------------------------------------------------
// heaps

func (vc *VC) heapTerm(st *State, name, sort string) string {
	if s, ok := vc.heapSort[name]; ok && s != sort {
		panic(fmt.Sprintf("heap %s used at two sorts: %s vs %s", name, s, sort))
	}
	vc.heapSort[name] = sort
	if vc.readLog != nil {
		vc.readLog[name] = true
	}
	if t, ok := st.heap.m[name]; ok {
		return t
	}
	base := smtName(name)
	vc.declare(base, sort)
	return base
}

func (vc *VC) setHeap(st *State, name, sort, term string) {
	vc.untracked[name] = true
	vc.setHeapTracked(st, name, sort, term)
}

// setHeapTracked: the caller records the modified key in vc.heapMods.
func (vc *VC) setHeapTracked(st *State, name, sort, term string) {
	vc.heapSort[name] = sort
	st.heap.m[name] = vc.define("h", sort, term)
}

type heapMod struct{ key, cond, site string } // site: path condition where the modification happens

// leafLoc computes (heap name, heap sort, key terms) for one leaf of a value
// of type d.T stored at location d.
type leafLoc struct {
	name  string
	sort  string
	key   string // ref or aid
	idx   string // element index (two-level heaps) or ""
	whole bool   // leaf is an entire embedded array: value sort is (Array BV64 el)
}

func (vc *VC) leafLocs(d *PtrDesc) []leafLoc {
	lay := layoutOf(d.T)
	var out []leafLoc
	if d.InElem {
		ek := elemKey(d.ElemT)
		for _, l := range lay.Leaves {
			if l.InArr {
				vc.unsupported("array inside array element (%s)", d.T)
			}
			p := joinPath(d.Sub, l.Path)
			out = append(out, leafLoc{name: elemHeapName(ek, p), sort: arrSort(sBV64, arrSort(sBV64, l.Sort)), key: d.Aid, idx: d.Idx})
		}
		return out
	}
	sk := structKey(d.RootT)
	for _, l := range lay.Leaves {
		if l.InArr {
			ap := joinPath(d.Path, l.ArrPath)
			k := 0
			if ap != "" {
				k = arrFieldIndex(sk, ap)
			}
			out = append(out, leafLoc{name: elemHeapName(l.ElemKey, l.ElemSub), sort: arrSort(sBV64, arrSort(sBV64, l.ElSort)), key: aidOf(d.Ref, k), whole: true})
			continue
		}
		p := joinPath(d.Path, l.Path)
		out = append(out, leafLoc{name: objHeapName(sk, p), sort: arrSort(sBV64, l.Sort), key: d.Ref})
	}
	return out
}

func (vc *VC) loadDesc(st *State, d *PtrDesc) Val {
	if d.Root == rGlobal {
		return vc.loadGlobalPath(st, d)
	}
	v := Val{T: d.T}
	for _, ll := range vc.leafLocs(d) {
		h := vc.heapTerm(st, ll.name, ll.sort)
		var t string
		if ll.idx != "" {
			t = sel(sel(h, ll.key), ll.idx)
		} else {
			t = vc.smartSelect(h, ll.key)
		}
		v.L = append(v.L, t)
	}
	return v
}

func (vc *VC) storeDesc(st *State, d *PtrDesc, v Val) {
	if d.Root == rGlobal {
		vc.storeGlobalPath(st, d, v)
		return
	}
	for k, ll := range vc.leafLocs(d) {
		if !vc.freshKeys[ll.key] {
			vc.dirty[ll.name] = true
			vc.heapMods[ll.name] = append(vc.heapMods[ll.name], heapMod{key: ll.key, site: st.cond})
		}
		h := vc.heapTerm(st, ll.name, ll.sort)
		var nt string
		if ll.idx != "" {
			nt = sto(h, ll.key, sto(sel(h, ll.key), ll.idx, v.L[k]))
		} else {
			nt = sto(h, ll.key, v.L[k])
		}
		vc.setHeapTracked(st, ll.name, ll.sort, nt)
		if ll.idx == "" && !vc.noSimplify {
			vc.storeDefs[st.heap.m[ll.name]] = storeInfo{prev: h, key: ll.key, val: v.L[k]}
		}
	}
}

// indexDesc: location of element idx of the array stored at location d.
func (vc *VC) indexDesc(d *PtrDesc, at *types.Array, idx64 string) *PtrDesc {
	if d.Root == rGlobal {
		if d.Path != "" || d.Sub != "" {
			vc.unsupported("index below a field of global %s", d.Glob)
		}
		nd := *d
		nd.GIdx = append(append([]string(nil), d.GIdx...), idx64)
		nd.T = at.Elem()
		return &nd
	}
	if d.InElem {
		vc.unsupported("index into array inside array element")
	}
	k := 0
	if d.Path != "" {
		k = arrFieldIndex(structKey(d.RootT), d.Path)
	}
	return &PtrDesc{InElem: true, Aid: aidOf(d.Ref, k), Idx: idx64, ElemT: at.Elem(), T: at.Elem()}
}

// ---------------------------------------------------------------------------
// frames

type Frame struct {
	fn        *ssa.Function
	id        int
	vals      map[ssa.Value]Val
	ptrs      map[ssa.Value]*PtrDesc
	endSt     map[*ssa.BasicBlock]*State
	edge      map[[2]int]string // (pred index, succ index) -> edge condition
	top       bool
	defers    []*ssa.Defer
	deferSt   []deferRec
	loops     map[*ssa.BasicBlock]*loopInfo
	retVals   []retSite
	entryVals map[ssa.Value]Val
}

type deferRec struct {
	instr *ssa.Defer
	cond  string
	args  []Val
}

type retSite struct {
	st    *State
	vals  []Val
	instr ssa.Instruction
}

type loopInfo struct {
	header      *ssa.BasicBlock
	ordinal     int
	blocks      map[*ssa.BasicBlock]bool
	backs       []*ssa.BasicBlock
	variant0    string
	havocSt     *State
	userTargets []locTarget
}

func (vc *VC) newFrame(fn *ssa.Function, top bool) *Frame {
	vc.frames++
	return &Frame{fn: fn, id: vc.frames, vals: map[ssa.Value]Val{}, ptrs: map[ssa.Value]*PtrDesc{}, endSt: map[*ssa.BasicBlock]*State{},
		edge: map[[2]int]string{}, top: top, loops: map[*ssa.BasicBlock]*loopInfo{}}
}

func (vc *VC) valName(fr *Frame, v ssa.Value) string {
	return smtName(fmt.Sprintf("v%d!%s", fr.id, v.Name()))
}

// value returns the symbolic value of an SSA operand.
func (vc *VC) value(fr *Frame, v ssa.Value) Val {
	switch x := v.(type) {
	case *ssa.Const:
		if x.Value == nil {
			return vc.zeroVal(x.Type())
		}
		t := x.Type()
		return vc.constVal(t, x.Value)
	case *ssa.Global:
		// address of a global: only meaningful through desc
		return Val{T: x.Type(), L: []string{"!global:" + x.String()}}
	case *ssa.Function:
		return Val{T: x.Type(), L: []string{bvLit(64, uint64(vc.w.funcId(x)))}}
	case *ssa.Builtin:
		return Val{T: x.Type()}
	}
	if val, ok := fr.vals[v]; ok {
		return val
	}
	vc.unsupported("use of untranslated value %s (%T) in %s", v.Name(), v, fr.fn)
	return Val{}
}

func (vc *VC) setVal(fr *Frame, v ssa.Value, val Val) {
	// name each leaf to keep terms small
	lay := layoutOf(v.Type())
	if len(lay.Leaves) != len(val.L) {
		vc.unsupported("internal: value shape mismatch for %s: type %s has %d leaves, got %d", v.Name(), v.Type(), len(lay.Leaves), len(val.L))
	}
	out := Val{T: v.Type()}
	base := vc.valName(fr, v)
	for k, t := range val.L {
		if len(t) < 40 || vc.inlineMode {
			out.L = append(out.L, t)
			continue
		}
		n := base
		if len(val.L) > 1 {
			n = smtName(fmt.Sprintf("v%d!%s!%d", fr.id, v.Name(), k))
		}
		if vc.declared[n] {
			n = vc.fresh(strings.Trim(n, "|"))
		}
		vc.declare(n, lay.Leaves[k].Sort)
		vc.script = append(vc.script, "(assert (= "+n+" "+t+"))")
		vc.noteDef(n, lay.Leaves[k].Sort, t)
		out.L = append(out.L, n)
	}
	fr.vals[v] = out
}

// desc returns the location descriptor of a pointer-typed SSA value.
func (vc *VC) desc(fr *Frame, v ssa.Value) *PtrDesc {
	if d, ok := fr.ptrs[v]; ok {
		return d
	}
	if g, ok := v.(*ssa.Global); ok {
		pt := g.Type().(*types.Pointer)
		return &PtrDesc{Root: rGlobal, Glob: g, RootT: pt.Elem(), T: pt.Elem()}
	}
	pt, ok := v.Type().Underlying().(*types.Pointer)
	if !ok {
		vc.unsupported("desc of non-pointer %s", v.Type())
	}
	val := vc.value(fr, v)
	return &PtrDesc{Root: rObj, Ref: val.L[0], RootT: pt.Elem(), T: pt.Elem()}
}

// ---------------------------------------------------------------------------
// CFG utilities

func forwardOrder(fn *ssa.Function) ([]*ssa.BasicBlock, map[[2]int]bool) {
	back := map[[2]int]bool{}
	for _, b := range fn.Blocks {
		for _, s := range b.Succs {
			if s.Dominates(b) {
				back[[2]int{b.Index, s.Index}] = true
			}
		}
	}
	visited := map[*ssa.BasicBlock]bool{}
	var post []*ssa.BasicBlock
	var dfs func(b *ssa.BasicBlock)
	dfs = func(b *ssa.BasicBlock) {
		visited[b] = true
		for _, s := range b.Succs {
			if back[[2]int{b.Index, s.Index}] || visited[s] {
				continue
			}
			dfs(s)
		}
		post = append(post, b)
	}
	dfs(fn.Blocks[0])
	for i, j := 0, len(post)-1; i < j; i, j = i+1, j-1 {
		post[i], post[j] = post[j], post[i]
	}
	return post, back
}

func findLoops(fn *ssa.Function, back map[[2]int]bool) map[*ssa.BasicBlock]*loopInfo {
	loops := map[*ssa.BasicBlock]*loopInfo{}
	for e := range back {
		src, h := fn.Blocks[e[0]], fn.Blocks[e[1]]
		li := loops[h]
		if li == nil {
			li = &loopInfo{header: h, blocks: map[*ssa.BasicBlock]bool{h: true}}
			loops[h] = li
		}
		li.backs = append(li.backs, src)
		// natural loop body: nodes that reach src without passing h
		var stack []*ssa.BasicBlock
		if !li.blocks[src] {
			li.blocks[src] = true
			stack = append(stack, src)
		}
		for len(stack) > 0 {
			n := stack[len(stack)-1]
			stack = stack[:len(stack)-1]
			for _, p := range n.Preds {
				if !li.blocks[p] {
					li.blocks[p] = true
					stack = append(stack, p)
				}
			}
		}
	}
	var hs []*ssa.BasicBlock
	for h := range loops {
		hs = append(hs, h)
	}
	sort.Slice(hs, func(i, j int) bool { return hs[i].Index < hs[j].Index })
	for i, h := range hs {
		loops[h].ordinal = i
		sort.Slice(loops[h].backs, func(a, b int) bool { return loops[h].backs[a].Index < loops[h].backs[b].Index })
	}
	return loops
}

// mergeStates merges predecessor end states along forward edges.
func (vc *VC) mergeStates(ins []*State, conds []string) *State {
	if len(ins) == 1 {
		s := ins[0].clone()
		s.cond = conds[0]
		return s
	}
	out := &State{heap: newHeap()}
	out.cond = vc.define("bc", sBool, or(conds...))
	names := map[string]bool{}
	for _, s := range ins {
		for n := range s.heap.m {
			names[n] = true
		}
	}
	var ns []string
	for n := range names {
		ns = append(ns, n)
	}
	sort.Strings(ns)
	for _, n := range ns {
		srt := vc.heapSort[n]
		var terms []string
		same := true
		for _, s := range ins {
			t := vc.heapTerm(s, n, srt)
			terms = append(terms, t)
			if t != terms[0] {
				same = false
			}
		}
		if same {
			out.heap.m[n] = terms[0]
			continue
		}
		acc := terms[len(terms)-1]
		for k := len(terms) - 2; k >= 0; k-- {
			acc = ite(conds[k], terms[k], acc)
		}
		out.heap.m[n] = vc.define("hm", srt, acc)
	}
	acc := ins[len(ins)-1].alloc
	for k := len(ins) - 2; k >= 0; k-- {
		acc = ite(conds[k], ins[k].alloc, acc)
	}
	out.alloc = vc.define("al", sBV64, acc)
	return out
}

// execBody runs fn's CFG from the entry state.  It returns the merged return
// values and state (cond = disjunction of the return path conditions).
func (vc *VC) execBody(fr *Frame, entry *State) ([]Val, *State) {
	fn := fr.fn
	if len(fn.Blocks) == 0 {
		vc.unsupported("function %s has no body", fn)
	}
	order, back := forwardOrder(fn)
	fr.loops = findLoops(fn, back)
	for _, b := range order {
		var st *State
		if b == fn.Blocks[0] {
			st = entry.clone()
		} else {
			var ins []*State
			var conds []string
			var preds []*ssa.BasicBlock
			for _, p := range b.Preds {
				if back[[2]int{p.Index, b.Index}] {
					continue
				}
				ps, ok := fr.endSt[p]
				if !ok {
					continue // unreachable predecessor
				}
				ec := fr.edge[[2]int{p.Index, b.Index}]
				if ec == "false" {
					continue
				}
				ins = append(ins, ps)
				conds = append(conds, ec)
				preds = append(preds, p)
			}
			if len(ins) == 0 {
				continue // unreachable block
			}
			st = vc.mergeStates(ins, conds)
			// phis
			for _, instr := range b.Instrs {
				phi, ok := instr.(*ssa.Phi)
				if !ok {
					break
				}
				var vals []Val
				for _, p := range preds {
					for pi, bp := range b.Preds {
						if bp == p {
							vals = append(vals, vc.phiOperand(fr, phi, pi))
							break
						}
					}
				}
				merged := vals[len(vals)-1]
				for k := len(vals) - 2; k >= 0; k-- {
					nv := Val{T: merged.T}
					for li := range merged.L {
						nv.L = append(nv.L, ite(conds[k], vals[k].L[li], merged.L[li]))
					}
					merged = nv
				}
				vc.setVal(fr, phi, merged)
			}
		}
		if li := fr.loops[b]; li != nil {
			st = vc.enterLoop(fr, li, st)
		}
		vc.execBlock(fr, b, st, back)
	}
	// merge return sites
	if len(fr.retVals) == 0 {
		return nil, nil
	}
	var ins []*State
	var conds []string
	for _, r := range fr.retVals {
		ins = append(ins, r.st)
		conds = append(conds, r.st.cond)
	}
	out := vc.mergeStates(ins, conds)
	n := len(fr.retVals[0].vals)
	res := make([]Val, n)
	for i := 0; i < n; i++ {
		merged := fr.retVals[len(fr.retVals)-1].vals[i]
		for k := len(fr.retVals) - 2; k >= 0; k-- {
			nv := Val{T: merged.T}
			for li := range merged.L {
				nv.L = append(nv.L, ite(conds[k], fr.retVals[k].vals[i].L[li], merged.L[li]))
			}
			merged = nv
		}
		// name them
		nv := Val{T: merged.T}
		lay := layoutOf(merged.T)
		for li, t := range merged.L {
			nv.L = append(nv.L, vc.define(fmt.Sprintf("ret%d", fr.id), lay.Leaves[li].Sort, t))
		}
		res[i] = nv
	}
	return res, out
}

func (vc *VC) phiOperand(fr *Frame, phi *ssa.Phi, pi int) Val {
	op := phi.Edges[pi]
	if _, ok := phi.Type().Underlying().(*types.Pointer); ok {
		if _, isInterior := fr.ptrs[op]; isInterior {
			vc.unsupported("phi of interior pointers in %s", fr.fn)
		}
	}
	return vc.value(fr, op)
}

func (vc *VC) execBlock(fr *Frame, b *ssa.BasicBlock, st *State, back map[[2]int]bool) {
	for _, instr := range b.Instrs {
		if _, ok := instr.(*ssa.Phi); ok {
			continue
		}
		switch x := instr.(type) {
		case *ssa.If:
			c := vc.value(fr, x.Cond).L[0]
			c = vc.define("c", sBool, c)
			fr.edge[[2]int{b.Index, b.Succs[0].Index}] = and(st.cond, c)
			fr.edge[[2]int{b.Index, b.Succs[1].Index}] = and(st.cond, not(c))
			fr.endSt[b] = st
			vc.backEdges(fr, b, st, back)
			return
		case *ssa.Jump:
			fr.edge[[2]int{b.Index, b.Succs[0].Index}] = st.cond
			fr.endSt[b] = st
			vc.backEdges(fr, b, st, back)
			return
		case *ssa.Return:
			var vals []Val
			for _, r := range x.Results {
				vals = append(vals, vc.value(fr, r))
			}
			fr.retVals = append(fr.retVals, retSite{st: st, vals: vals, instr: x})
			fr.endSt[b] = st
			return
		case *ssa.Panic:
			vc.oblige(st, "panic", "", "false", x.Pos(), vc.safetyProps)
			fr.endSt[b] = st
			return
		default:
			vc.execInstr(fr, instr, st)
		}
	}
}

// backEdges asserts loop invariants and variants on back edges leaving b.
func (vc *VC) backEdges(fr *Frame, b *ssa.BasicBlock, st *State, back map[[2]int]bool) {
	for _, s := range b.Succs {
		if !back[[2]int{b.Index, s.Index}] {
			continue
		}
		li := fr.loops[s]
		ec := fr.edge[[2]int{b.Index, s.Index}]
		bst := st.clone()
		bst.cond = ec
		vc.checkLoopBack(fr, li, b, bst)
		fr.edge[[2]int{b.Index, s.Index}] = "false"
	}
}
