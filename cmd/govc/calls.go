package main

import (
	"fmt"
	"go/ast"
	"go/types"
	"regexp"
	"sort"
	"strconv"
	"strings"

	"golang.org/x/tools/go/ssa"
)

// execCall translates a call (site may be nil for deferred calls).
func (vc *VC) execCall(fr *Frame, site *ssa.Call, call *ssa.CallCommon, st *State) Val {
	pos := call.Pos()
	var rt types.Type = call.Signature().Results()
	if call.Signature().Results().Len() == 1 {
		rt = call.Signature().Results().At(0).Type()
	}
	if call.IsInvoke() {
		recv := vc.value(fr, call.Value)
		var args []Val
		args = append(args, recv)
		for _, a := range call.Args {
			args = append(args, vc.value(fr, a))
		}
		vc.oblige(st, "nil", "iface", not(eq(recv.L[0], bvLit(64, 0))), pos, vc.safetyProps)
		name := "(" + typeKey(call.Value.Type()) + ")." + call.Method.Name()
		return vc.callByName(fr, st, name, call, args, rt)
	}
	switch callee := call.Value.(type) {
	case *ssa.Builtin:
		return vc.execBuiltin(fr, call, callee, st, rt)
	case *ssa.Function:
		if fr.top && site != nil {
			vc.callsiteClauses(fr, site, callee.Name(), st)
		}
		var args []Val
		for _, a := range call.Args {
			args = append(args, vc.value(fr, a))
		}
		return vc.callFunction(fr, st, callee, call, args, rt)
	case *ssa.MakeClosure:
		fn := callee.Fn.(*ssa.Function)
		var args []Val
		for _, a := range call.Args {
			args = append(args, vc.value(fr, a))
		}
		if len(callee.Bindings) == 0 {
			return vc.callFunction(fr, st, fn, call, args, rt)
		}
		vc.unsupported("call of closure with bindings in %s", fr.fn)
	}
	// dynamic call of a function value
	var args []Val
	fv := vc.value(fr, call.Value)
	args = append(args, fv)
	for _, a := range call.Args {
		if d, interior := fr.ptrs[a]; interior {
			if _, isAlloc := a.(*ssa.Alloc); !isAlloc {
				id := vc.fresh("interior")
				vc.ifacePtr[id] = d
				args = append(args, Val{T: a.Type(), L: []string{id}})
				continue
			}
		}
		args = append(args, vc.value(fr, a))
	}
	return vc.callByName(fr, st, "dyncall:"+typeKey(call.Value.Type()), call, args, rt)
}

func (vc *VC) execBuiltin(fr *Frame, call *ssa.CallCommon, b *ssa.Builtin, st *State, rt types.Type) Val {
	switch b.Name() {
	case "len":
		v := vc.value(fr, call.Args[0])
		switch t := v.T.Underlying().(type) {
		case *types.Slice, *types.Basic:
			return Val{T: rt, L: []string{v.L[2]}}
		case *types.Array:
			return Val{T: rt, L: []string{bvLit(64, uint64(t.Len()))}}
		case *types.Map:
			n := vc.mapLen(st, v, t)
			vc.assume(st.cond, and(app("bvsle", bvLit(64, 0), n), app("bvslt", n, bvLit(64, 1<<40))))
			return Val{T: rt, L: []string{n}}
		case *types.Pointer:
			return Val{T: rt, L: []string{bvLit(64, uint64(t.Elem().Underlying().(*types.Array).Len()))}}
		}
	case "cap":
		v := vc.value(fr, call.Args[0])
		if _, ok := v.T.Underlying().(*types.Slice); ok {
			return Val{T: rt, L: []string{v.L[3]}}
		}
	case "copy":
		dst := vc.value(fr, call.Args[0])
		src := vc.value(fr, call.Args[1])
		return vc.builtinCopy(st, dst, src, rt)
	case "append":
		return vc.builtinAppend(fr, call, st, rt)
	case "ssa:wrapnilchk":
		v := vc.value(fr, call.Args[0])
		vc.oblige(st, "nil", "wrap", not(eq(v.L[0], bvLit(64, 0))), call.Pos(), vc.safetyProps)
		return Val{T: rt, L: v.L}
	case "min", "max":
		a := vc.value(fr, call.Args[0])
		bv := vc.value(fr, call.Args[1])
		op := "bvult"
		if isSigned(a.T) {
			op = "bvslt"
		}
		c := app(op, a.L[0], bv.L[0])
		if b.Name() == "max" {
			return Val{T: rt, L: []string{ite(c, bv.L[0], a.L[0])}}
		}
		return Val{T: rt, L: []string{ite(c, a.L[0], bv.L[0])}}
	}
	vc.unsupported("builtin %s in %s", b.Name(), fr.fn)
	return Val{}
}

// builtinCopy: n = min(len dst, len src); dst[0..n) = src[0..n).
func (vc *VC) builtinCopy(st *State, dst, src Val, rt types.Type) Val {
	et := dst.T.Underlying().(*types.Slice).Elem()
	srcLen := src.L[2]
	n := vc.define("cpn", sBV64, ite(app("bvslt", dst.L[2], srcLen), dst.L[2], srcLen))
	srcIsString := isString(src.T)
	for _, l := range layoutOf(et).Leaves {
		hn := elemHeapName(elemKey(et), l.Path)
		hs := arrSort(sBV64, arrSort(sBV64, l.Sort))
		h := vc.heapTerm(st, hn, hs)
		old := vc.define("cpo", arrSort(sBV64, l.Sort), sel(h, dst.L[0]))
		na := vc.freshConst("cpa", arrSort(sBV64, l.Sort))
		// forall i: na[i] = (doff <= i < doff+n) ? src[soff + (i-doff)] : old[i]
		q := vc.fresh("i")
		var srcAt string
		if srcIsString {
			srcAt = vc.strByte(src, app("bvsub", q, dst.L[1]))
		} else {
			srcArr := vc.define("cps", arrSort(sBV64, l.Sort), sel(h, src.L[0]))
			srcAt = sel(srcArr, app("bvadd", src.L[1], app("bvsub", q, dst.L[1])))
		}
		inr := and(app("bvsle", dst.L[1], q), app("bvslt", q, app("bvadd", dst.L[1], n)))
		vc.assume("true", fmt.Sprintf("(forall ((%s %s)) (! (and (= (select %s %s) %s) %s) :pattern ((select %s %s))))", q, sBV64, na, q,
			ite(inr, srcAt, sel(old, q)), rangeEquiv(q, dst.L[1], n), na, q))
		vc.setHeap(st, hn, hs, sto(h, dst.L[0], na))
	}
	return Val{T: rt, L: []string{n}}
}

// builtinAppend models append(s, elems...) for a literal slice of elements (the
// compiler-generated varargs slice) or append(s, t...).
func (vc *VC) builtinAppend(fr *Frame, call *ssa.CallCommon, st *State, rt types.Type) Val {
	vc.trusted["append is modelled as always yielding a fresh backing array (no aliasing through spare capacity; holds for the slices of the verified code, which are not shared between live slice headers that are appended to)"] = true
	s := vc.value(fr, call.Args[0])
	add := vc.value(fr, call.Args[1])
	slt := s.T.Underlying().(*types.Slice)
	et := slt.Elem()
	// new backing array (fresh): contents = old[0..len) ++ add[0..alen)
	ref := vc.allocRef(st)
	aid := vc.define("aid", sBV64, aidOf(ref, 0))
	vc.freshKeys[aid] = true
	nl := vc.define("apl", sBV64, app("bvadd", s.L[2], add.L[2]))
	addIsString := isString(add.T)
	for _, l := range layoutOf(et).Leaves {
		hn := elemHeapName(elemKey(et), l.Path)
		hs := arrSort(sBV64, arrSort(sBV64, l.Sort))
		h := vc.heapTerm(st, hn, hs)
		old := vc.define("apo", arrSort(sBV64, l.Sort), sel(h, s.L[0]))
		na := vc.freshConst("apa", arrSort(sBV64, l.Sort))
		q := vc.fresh("i")
		var addAt string
		if addIsString {
			addAt = vc.strByte(add, app("bvsub", q, s.L[2]))
		} else {
			addArr := vc.define("aps", arrSort(sBV64, l.Sort), sel(h, add.L[0]))
			addAt = sel(addArr, app("bvadd", add.L[1], app("bvsub", q, s.L[2])))
		}
		body := ite(and(app("bvsle", bvLit(64, 0), q), app("bvslt", q, s.L[2])), sel(old, app("bvadd", s.L[1], q)),
			ite(and(app("bvsle", s.L[2], q), app("bvslt", q, nl)), addAt, zeroOfSort(l.Sort)))
		vc.assume("true", fmt.Sprintf("(forall ((%s %s)) (! (= (select %s %s) %s) :pattern ((select %s %s))))", q, sBV64, na, q, body, na, q))
		vc.setHeap(st, hn, hs, sto(h, aid, na))
	}
	return Val{T: rt, L: []string{aid, bvLit(64, 0), nl, nl}}
}

// ---------------------------------------------------------------------------

func inVerifiedPkgs(fn *ssa.Function) bool {
	if fn.Pkg == nil {
		// synthetic wrappers / instantiations
		if fn.Origin() != nil && fn.Origin().Pkg != nil {
			return strings.HasPrefix(fn.Origin().Pkg.Pkg.Path(), modPath)
		}
		if fn.Synthetic != "" && fn.Object() != nil && fn.Object().Pkg() != nil {
			return strings.HasPrefix(fn.Object().Pkg().Path(), modPath)
		}
		return false
	}
	p := fn.Pkg.Pkg.Path()
	return p == modPath || p == modPath+"/dyncrc16" || p == modPath+"/internal/types"
}

func (vc *VC) callFunction(fr *Frame, st *State, callee *ssa.Function, call *ssa.CallCommon, args []Val, rt types.Type) Val {
	if c, ok := vc.w.Contracts[callee.String()]; ok && !c.Raw.Inline {
		return vc.applyContract(fr, st, c, call, args, rt)
	}
	if inVerifiedPkgs(callee) && len(callee.Blocks) > 0 {
		return vc.inlineCall(fr, st, callee, call, args, rt)
	}
	return vc.callByName(fr, st, callee.String(), call, args, rt)
}

const maxInlineDepth = 6
const maxInlineInstrs = 200

func (vc *VC) inlineCall(fr *Frame, st *State, callee *ssa.Function, call *ssa.CallCommon, args []Val, rt types.Type) Val {
	n := 0
	for _, b := range callee.Blocks {
		n += len(b.Instrs)
		for _, s := range b.Succs {
			if s.Dominates(b) {
				vc.unsupported("call to %s: callee has a loop and no contract", callee)
			}
		}
	}
	if n > maxInlineInstrs {
		vc.unsupported("call to %s: callee too large to inline (%d instructions) and has no contract", callee, n)
	}
	if vc.inlineDepth >= maxInlineDepth {
		vc.unsupported("inlining too deep at %s", callee)
	}
	vc.inlineDepth++
	defer func() { vc.inlineDepth-- }()
	nf := vc.newFrame(callee, false)
	for i, p := range callee.Params {
		nf.vals[p] = args[i]
	}
	res, out := vc.execBody(nf, st)
	if out == nil {
		// callee never returns normally: this path ends
		st.cond = "false"
		return vc.zeroValOf(rt)
	}
	out.cond = vc.define("bc", sBool, out.cond)
	*st = *out
	return tupleOf(rt, res)
}

func (vc *VC) zeroValOf(rt types.Type) Val {
	if rt == nil {
		return Val{}
	}
	return vc.zeroVal(rt)
}

func tupleOf(rt types.Type, res []Val) Val {
	v := Val{T: rt}
	for _, r := range res {
		v.L = append(v.L, r.L...)
	}
	return v
}

// pureCall evaluates a loop-free repository function as a term (used from specs).
func (vc *VC) pureCall(st *State, fn *ssa.Function, args []Val) (Val, error) {
	if !inVerifiedPkgs(fn) {
		return Val{}, fmt.Errorf("spec calls external function %s", fn)
	}
	tmp := st.clone()
	saveObls := len(vc.obls)
	nf := vc.newFrame(fn, false)
	if len(args) != len(fn.Params) {
		return Val{}, fmt.Errorf("arity mismatch calling %s in spec", fn)
	}
	for i, p := range fn.Params {
		nf.vals[p] = args[i]
	}
	saveSafety := vc.safetyProps
	res, out := vc.execBody(nf, tmp)
	vc.safetyProps = saveSafety
	// obligations raised inside spec evaluation are not program obligations
	vc.obls = vc.obls[:saveObls]
	if out == nil || len(res) != 1 {
		return Val{}, fmt.Errorf("function %s used in a spec must return exactly one value", fn)
	}
	return res[0], nil
}

// ---------------------------------------------------------------------------
// contracts at call sites

type locTarget struct {
	name      string
	sort      string
	key       string // ref / aid / map ref; "" for scalar globals
	whole     bool   // entire heap array may change
	cond      string // non-empty: the cell may change only if cond holds (dynamic-type guard)
	freshOnly bool   // with whole: only cells of objects allocated after this point change
}

func (vc *VC) contractEnv(c *Contract, args []Val, results []Val, st, old *State) *SpecEnv {
	e := &SpecEnv{vc: vc, pkg: c.Pkg, vars: map[types.Object]Val{}, st: st, old: old}
	for i := 0; i < c.NIn; i++ {
		e.vars[c.Params[i]] = args[i]
	}
	for i := 0; i < c.NRes && i < len(results); i++ {
		e.vars[c.Params[c.NIn+i]] = results[i]
	}
	e.oldVars = e.vars
	return e
}

// clauses returns the clauses of c that are part of the contract in this VC:
// untagged clauses always; clauses tagged with properties only in the layered
// VC of one of those properties.
func (vc *VC) clauses(c *Contract) []*Clause {
	if c == nil {
		return nil
	}
	var out []*Clause
	for _, cl := range c.Clauses {
		if len(cl.Raw.Props) == 0 || (vc.layer != "" && hasProp(cl.Raw.Props, vc.layer)) {
			out = append(out, cl)
		}
	}
	return out
}

func (vc *VC) clauseProps(c *Contract, cl *Clause) []string {
	if len(cl.Raw.Props) > 0 {
		return cl.Raw.Props
	}
	return c.Raw.Props
}

func (vc *VC) applyContract(fr *Frame, st *State, c *Contract, call *ssa.CallCommon, args []Val, rt types.Type) Val {
	vc.trustedNote(c)
	pre := st.clone()
	env := vc.contractEnv(c, args, nil, st, nil)
	// implicit: pointer receiver/params non-nil unless nullable
	for i := 0; i < c.NIn; i++ {
		if _, ok := c.Params[i].Type().Underlying().(*types.Pointer); ok && !contains(c.Raw.Nullable, c.Params[i].Name()) {
			vc.oblige(st, "pre@"+c.short(), "nonnil."+c.Params[i].Name(), not(eq(args[i].L[0], bvLit(64, 0))), call.Pos(), vc.safetyProps)
		}
	}
	for _, cl := range vc.clauses(c) {
		if cl.Raw.Kind != "requires" {
			continue
		}
		g := vc.specBool(env, cl.Expr)
		pp := vc.safetyProps
		if len(cl.Raw.Props) > 0 {
			pp = cl.Raw.Props
		}
		vc.oblige(st, "pre@"+c.short(), cl.Raw.Label, g, call.Pos(), pp)
	}
	// havoc the assigned locations
	targets := vc.assignTargets(c, env, -1)
	vc.havocTargets(st, targets)
	// allocation may advance
	na := vc.freshConst("al", sBV64)
	vc.assume(st.cond, and(app("bvuge", na, st.alloc), app("bvult", na, bvLit(64, 1<<46))))
	st.alloc = na
	// results
	var results []Val
	sig := c.sig()
	for i := 0; i < sig.Results().Len(); i++ {
		t := sig.Results().At(i).Type()
		v := Val{T: t}
		for _, l := range layoutOf(t).Leaves {
			v.L = append(v.L, vc.freshConst("r_"+c.Raw.Name, l.Sort))
		}
		vc.assumeWellFormed(st, v)
		results = append(results, v)
	}
	post := vc.contractEnv(c, args, results, st, pre)
	// ghost code runs at the callee's return, before its postconditions are evaluated (as in its own VC)
	vc.applyGassigns(c, post, st, true)
	for _, cl := range vc.clauses(c) {
		if cl.Raw.Kind != "ensures" {
			continue
		}
		vc.assume(st.cond, vc.specBool(post, cl.Expr))
	}
	return tupleOf(rt, results)
}

// applyGassigns executes the ghost assignments of a contract (ghost code that
// runs at normal return): G(k0[, k1]) := v when cond.  k1 may be govcStar (the
// whole row of k0).
func (vc *VC) applyGassigns(c *Contract, env *SpecEnv, st *State, atCall bool) {
	for _, cl := range vc.clauses(c) {
		if cl.Raw.Kind != "gassign" {
			continue
		}
		call, ok := cl.GTarget.(*ast.CallExpr)
		if !ok {
			panic(outsideSubset{"gassign: target is not a ghost function application"})
		}
		var fobj *types.Func
		if id, ok := call.Fun.(*ast.Ident); ok {
			fobj, _ = c.Pkg.TypesInfo.Uses[id].(*types.Func)
		}
		g, ok := vc.w.Ghosts[fobj]
		if !ok || vc.w.GhostConst[g] || len(call.Args) == 0 || len(call.Args) > 2 {
			panic(outsideSubset{"gassign: target must be a (non-const) ghost function of one or two keys"})
		}
		func() {
			defer func() {
				if r := recover(); r != nil {
					if se, ok := r.(specErr); ok {
						panic(outsideSubset{"gassign: " + se.msg})
					}
					panic(r)
				}
			}()
			env.st = st
			cond := env.boolTerm(cl.GCond)
			val := env.eval(cl.GValue)
			rs := layoutOf(fobj.Type().(*types.Signature).Results().At(0).Type()).Leaves[0].Sort
			k0 := ghostKey(env.eval(call.Args[0]))
			hn := ghostHeapName(g)
			if atCall {
				vc.dirty[hn] = true // the caller's frame must account for the callee's ghost effect
			}
			if len(call.Args) == 1 {
				hs := arrSort(sBV64, rs)
				vc.ghostSorts[hn] = hs
				h := vc.heapTerm(st, hn, hs)
				vc.setHeap(st, hn, hs, sto(h, k0, ite(cond, val.L[0], sel(h, k0))))
				return
			}
			hs := arrSort(sBV64, arrSort(sBV64, rs))
			vc.ghostSorts[hn] = hs
			h := vc.heapTerm(st, hn, hs)
			row := sel(h, k0)
			var nrow string
			if id, ok := call.Args[1].(*ast.Ident); ok && id.Name == "govcStar" {
				nrow = constArr(arrSort(sBV64, rs), val.L[0])
			} else {
				k1v := env.eval(call.Args[1])
				k1 := bvExtend(k1v.L[0], widthOf(k1v.T), 64, isSigned(k1v.T))
				nrow = sto(row, k1, val.L[0])
			}
			vc.setHeap(st, hn, hs, sto(h, k0, ite(cond, nrow, row)))
		}()
	}
}

func (vc *VC) trustedNote(c *Contract) {
	if c.Raw.Trusted {
		vc.trusted["assumed contract on repository function "+c.Key()] = true
	}
	if c.Fn == nil {
		vc.trusted["interface-method contract "+c.short()+" (justified for repository implementations by subtype obligations)"] = true
	}
}

func contains(xs []string, x string) bool {
	for _, y := range xs {
		if y == x {
			return true
		}
	}
	return false
}

func (c *Contract) short() string {
	s := c.Key()
	s = strings.ReplaceAll(s, modPath+"/", "")
	s = strings.ReplaceAll(s, modPath+".", "")
	return s
}

func (c *Contract) sig() *types.Signature {
	if c.Fn != nil {
		return c.Fn.Signature
	}
	return c.IfaceSig
}

func shortFn(fn *ssa.Function) string {
	s := fn.String()
	s = strings.ReplaceAll(s, modPath+"/", "")
	s = strings.ReplaceAll(s, modPath+".", "")
	return s
}

func (vc *VC) specBool(e *SpecEnv, x ast.Expr) (res string) {
	defer func() {
		if r := recover(); r != nil {
			if se, ok := r.(specErr); ok {
				panic(outsideSubset{"spec: " + se.msg})
			}
			panic(r)
		}
	}()
	return e.boolTerm(x)
}

// assignTargets evaluates the assigns clauses (loop = -1: function level).
func (vc *VC) assignTargets(c *Contract, env *SpecEnv, loop int) []locTarget {
	var out []locTarget
	for _, cl := range vc.clauses(c) {
		if cl.Raw.Kind != "assigns" || cl.Raw.Loop != loop {
			continue
		}
		for k, loc := range cl.Locs {
			out = append(out, vc.evalLoc(env, loc, cl.Whole[k])...)
		}
	}
	return out
}

// evalLoc translates an assigns location expression.
func (vc *VC) evalLoc(e *SpecEnv, x ast.Expr, whole bool) (res []locTarget) {
	defer func() {
		if r := recover(); r != nil {
			if se, ok := r.(specErr); ok {
				panic(outsideSubset{"assigns: " + se.msg})
			}
			panic(r)
		}
	}()
	info := e.pkg.TypesInfo
	switch x := x.(type) {
	case *ast.ParenExpr:
		return vc.evalLoc(e, x.X, whole)
	case *ast.StarExpr:
		p := e.eval(x.X)
		pt := p.T.Underlying().(*types.Pointer)
		d := &PtrDesc{Root: rObj, Ref: p.L[0], RootT: pt.Elem(), T: pt.Elem()}
		return vc.descTargets(d)
	case *ast.Ident:
		obj := info.Uses[x]
		if gv, ok := obj.(*types.Var); ok && gv.Parent() == gv.Pkg().Scope() {
			var out []locTarget
			for k, s := range nestedLeafSorts(gv.Type()) {
				out = append(out, locTarget{name: fmt.Sprintf("%s!%d", globHeapName(gv.Pkg().Name()+"."+gv.Name()), k), sort: s, whole: true})
			}
			return out
		}
		// slice-typed parameter: its contents
		v := e.eval(x)
		if slt, ok := v.T.Underlying().(*types.Slice); ok && whole {
			return sliceTargets(v, slt)
		}
		e.fail(x, "unsupported assigns location")
	case *ast.SelectorExpr:
		sel := info.Selections[x]
		if sel == nil {
			e.fail(x, "unsupported assigns location")
		}
		// find the innermost pointer-typed prefix
		path := []string{}
		var cur ast.Expr = x
		for {
			se, ok := cur.(*ast.SelectorExpr)
			if !ok {
				break
			}
			s := info.Selections[se]
			if s == nil || s.Kind() != types.FieldVal || len(s.Index()) != 1 {
				e.fail(x, "unsupported assigns path")
			}
			path = append([]string{se.Sel.Name}, path...)
			bt := e.typeOf(se.X)
			if pt, ok := bt.Underlying().(*types.Pointer); ok {
				base := e.eval(se.X)
				d := &PtrDesc{Root: rObj, Ref: base.L[0], RootT: pt.Elem(), Path: strings.Join(path, "."), T: e.typeOf(x)}
				if slt, ok := d.T.Underlying().(*types.Slice); ok && whole {
					v := vc.loadDesc(e.st, d)
					return sliceTargets(v, slt)
				}
				if mt, ok := d.T.Underlying().(*types.Map); ok && whole {
					v := vc.loadDesc(e.st, d)
					names, sorts := vc.mapHeaps(e.st, mt)
					var out []locTarget
					for i := range names {
						out = append(out, locTarget{name: names[i], sort: sorts[i], key: v.L[0]})
					}
					return out
				}
				return vc.descTargets(d)
			}
			cur = se.X
		}
		e.fail(x, "assigns location is not rooted at a pointer")
	case *ast.CallExpr:
		// ghost location
		var fobj *types.Func
		if id, ok := x.Fun.(*ast.Ident); ok {
			fobj, _ = info.Uses[id].(*types.Func)
		}
		if id, ok := x.Fun.(*ast.Ident); ok && id.Name == "govcRvstate" {
			v := e.eval(x.Args[0])
			var out []locTarget
			for _, n := range rvStateHeaps {
				hs := arrSort(sBV64, arrSort(sBV64, n[1]))
				vc.ghostSorts[ghostHeapName(n[0])] = hs
				out = append(out, locTarget{name: ghostHeapName(n[0]), sort: hs, key: v.L[iObj]})
			}
			return out
		}
		if id, ok := x.Fun.(*ast.Ident); ok && id.Name == "govcAllFields" {
			p := e.eval(x.Args[0])
			pt := p.T.Underlying().(*types.Pointer)
			d := &PtrDesc{Root: rObj, Ref: p.L[0], RootT: pt.Elem(), T: pt.Elem()}
			return vc.descTargets(d)
		}
		if id, ok := x.Fun.(*ast.Ident); ok && id.Name == "govcIfaceObj" {
			v := e.eval(x.Args[0])
			it, ok := e.typeOf(x.Args[0]).Underlying().(*types.Interface)
			if !ok {
				e.fail(x, "ifaceobj of non-interface")
			}
			var out []locTarget
			scope := e.pkg.Types.Scope()
			for _, n := range scope.Names() {
				tn, ok := scope.Lookup(n).(*types.TypeName)
				if !ok {
					continue
				}
				if _, isStruct := tn.Type().Underlying().(*types.Struct); !isStruct {
					continue
				}
				if !types.Implements(types.NewPointer(tn.Type()), it) {
					continue
				}
				// implementers that opt out of the interface (nosubtype) are excluded; the
				// interface contract's precondition must rule them out as dynamic types
				if vc.w.optedOut(types.NewPointer(tn.Type()), it) {
					continue
				}
				d := &PtrDesc{Root: rObj, Ref: v.L[1], RootT: tn.Type(), T: tn.Type()}
				guard := eq(v.L[0], bvLit(64, uint64(vc.w.tags.tag(types.NewPointer(tn.Type())))))
				for _, t := range vc.descTargets(d) {
					t.cond = guard
					out = append(out, t)
				}
			}
			return out
		}
		if id, ok := x.Fun.(*ast.Ident); ok && id.Name == "govcOld" {
			return vc.evalLoc(e.inOld(), x.Args[0], whole)
		}
		if fobj == nil {
			if se, ok := x.Fun.(*ast.SelectorExpr); ok {
				fobj, _ = info.Uses[se.Sel].(*types.Func)
			}
		}
		if g, ok := vc.w.Ghosts[fobj]; ok {
			if len(x.Args) == 0 {
				return []locTarget{{name: ghostHeapName(g), whole: true}}
			}
			a := e.eval(x.Args[0])
			rs := layoutOf(fobj.Type().(*types.Signature).Results().At(0).Type()).Leaves[0].Sort
			if len(x.Args) == 2 {
				rs = arrSort(sBV64, rs) // the whole row of the object
			}
			vc.ghostSorts[ghostHeapName(g)] = arrSort(sBV64, rs)
			return []locTarget{{name: ghostHeapName(g), key: ghostKey(a), sort: arrSort(sBV64, rs)}}
		}
		if sp, ok := vc.w.Specs[fobj]; ok {
			// location denoted by a spec function: expand its body
			ne := &SpecEnv{vc: vc, pkg: sp.Pkg, vars: map[types.Object]Val{}, st: e.st, old: e.old}
			k := 0
			for _, fl := range sp.Decl.Type.Params.List {
				for _, nm := range fl.Names {
					ne.vars[sp.Pkg.TypesInfo.Defs[nm]] = e.eval(x.Args[k])
					k++
				}
			}
			ne.oldVars = ne.vars
			body := sp.Decl.Body.List[0].(*ast.ReturnStmt).Results[0]
			for {
				// strip conversions
				if ce, ok := body.(*ast.CallExpr); ok {
					if tv, ok := sp.Pkg.TypesInfo.Types[ce.Fun]; ok && tv.IsType() {
						body = ce.Args[0]
						continue
					}
				}
				if pe, ok := body.(*ast.ParenExpr); ok {
					body = pe.X
					continue
				}
				break
			}
			return vc.evalLoc(ne, body, whole)
		}
		// conversion around a location
		if tv, ok := info.Types[x.Fun]; ok && tv.IsType() {
			return vc.evalLoc(e, x.Args[0], whole)
		}
		e.fail(x, "unsupported assigns call")
	}
	e.fail(x, "unsupported assigns location %T", x)
	return nil
}

func ghostKey(a Val) string {
	switch a.T.Underlying().(type) {
	case *types.Interface:
		return a.L[1]
	case *types.Slice:
		return a.L[0]
	}
	return a.L[0]
}

func sliceTargets(v Val, slt *types.Slice) []locTarget {
	var out []locTarget
	for _, l := range layoutOf(slt.Elem()).Leaves {
		out = append(out, locTarget{name: elemHeapName(elemKey(slt.Elem()), l.Path), sort: arrSort(sBV64, arrSort(sBV64, l.Sort)), key: v.L[0]})
	}
	return out
}

func (vc *VC) descTargets(d *PtrDesc) []locTarget {
	var out []locTarget
	for _, ll := range vc.leafLocs(d) {
		out = append(out, locTarget{name: ll.name, sort: ll.sort, key: ll.key})
	}
	return out
}

// havocTargets replaces the assigned cells by fresh values.
func (vc *VC) havocTargets(st *State, ts []locTarget) {
	byName := map[string][]locTarget{}
	var names []string
	for _, t := range ts {
		if _, ok := byName[t.name]; !ok {
			names = append(names, t.name)
		}
		byName[t.name] = append(byName[t.name], t)
	}
	sort.Strings(names)
	for _, n := range names {
		vc.dirty[n] = true
		srt := byName[n][0].sort
		if srt == "" {
			srt = vc.heapSort[n]
		}
		if srt == "" {
			srt = vc.w.globalSort(vc, n)
		}
		if srt == "" {
			vc.unsupported("assigns of heap %s with unknown sort", n)
		}
		whole := false
		freshOnly := true
		var keyed []locTarget
		for _, t := range byName[n] {
			if t.whole || t.key == "" {
				whole = true
				if !t.freshOnly {
					freshOnly = false
				}
			} else {
				keyed = append(keyed, t)
			}
		}
		if whole && freshOnly && strings.HasPrefix(srt, "(Array ") && (strings.HasPrefix(n, "H!") || strings.HasPrefix(n, "A!") || strings.HasPrefix(n, "Z!")) {
			// only cells of objects allocated from now on (and explicitly keyed cells) may change
			old := vc.heapTerm(st, n, srt)
			f := vc.freshConst("hv", srt)
			q := vc.fresh("k")
			below := app("bvult", q, st.alloc)
			if strings.HasPrefix(n, "A!") {
				below = app("bvult", "((_ zero_extend 16) ((_ extract 63 16) "+q+"))", st.alloc)
			}
			conds := []string{below}
			for _, t := range keyed {
				conds = append(conds, not(eq(q, t.key)))
			}
			vc.script = append(vc.script, fmt.Sprintf("(assert (forall ((%s %s)) (! (=> %s (= (select %s %s) (select %s %s))) :pattern ((select %s %s)))))",
				q, indexSortOf(srt), and(conds...), f, q, old, q, f, q))
			st.heap.m[n] = f
			vc.heapSort[n] = srt
			for _, t := range keyed {
				vc.heapMods[n] = append(vc.heapMods[n], heapMod{key: t.key, cond: t.cond, site: st.cond})
			}
			continue
		}
		if whole {
			st.heap.m[n] = vc.freshConst("hv", srt)
			vc.heapSort[n] = srt
			vc.untracked[n] = true
			continue
		}
		h := vc.heapTerm(st, n, srt)
		vs := valueSortOf(srt)
		doneKey := map[string]bool{}
		for _, t := range byName[n] {
			if doneKey[t.key+"|"+t.cond] {
				continue
			}
			doneKey[t.key+"|"+t.cond] = true
			// a fresh constant per cell (not a read of a fresh array): solvers eliminate it by substitution
			f := vc.freshConst("hc", vs)
			if t.cond != "" {
				h = sto(h, t.key, ite(t.cond, f, sel(h, t.key)))
			} else {
				h = sto(h, t.key, f)
			}
			vc.heapMods[n] = append(vc.heapMods[n], heapMod{key: t.key, cond: t.cond, site: st.cond})
		}
		vc.setHeapTracked(st, n, srt, h)
	}
}

// ---------------------------------------------------------------------------
// loops

func (vc *VC) loopClauses(li *loopInfo, kind string) []*Clause {
	var out []*Clause
	if vc.curContract == nil {
		return nil
	}
	for _, cl := range vc.clauses(vc.curContract) {
		if cl.Raw.Kind == kind && cl.Raw.Loop == li.ordinal {
			out = append(out, cl)
		}
	}
	return out
}

// localEnv builds the spec environment for loop clauses: parameters (entry
// values), locals bound to the given phi values or to dominating definitions.
func (vc *VC) localEnv(fr *Frame, li *loopInfo, st *State, phiVals map[*ssa.Phi]Val) *SpecEnv {
	c := vc.curContract
	e := &SpecEnv{vc: vc, pkg: c.Pkg, vars: map[types.Object]Val{}, st: st, old: vc.entry}
	old := map[types.Object]Val{}
	for i := 0; i < c.NIn; i++ {
		e.vars[c.Params[i]] = fr.vals[fr.fn.Params[i]]
		old[c.Params[i]] = fr.vals[fr.fn.Params[i]]
		// a parameter that is reassigned in the loop: its current value is the header phi
		for _, instr := range li.header.Instrs {
			phi, ok := instr.(*ssa.Phi)
			if !ok {
				break
			}
			if phi.Comment == c.Params[i].Name() {
				if v, ok := phiVals[phi]; ok {
					e.vars[c.Params[i]] = v
				} else {
					e.vars[c.Params[i]] = fr.vals[phi]
				}
			}
		}
	}
	for i := c.NIn + c.NRes; i < len(c.Params); i++ {
		name := c.Params[i].Name()
		if name == "rangecount" {
			// pseudo local of a map-range loop: the number of entries delivered so far
			if t, ok := vc.iterPos(st, li); ok {
				e.vars[c.Params[i]] = Val{T: c.Params[i].Type(), L: []string{t}}
				continue
			}
		}
		v, ok := vc.lookupLocal(fr, li, name, phiVals)
		if !ok {
			// not in scope for this loop: leave unbound (error if used)
			continue
		}
		if !types.Identical(v.T, c.Params[i].Type()) && len(v.L) == len(layoutOf(c.Params[i].Type()).Leaves) {
			v = Val{T: c.Params[i].Type(), L: v.L}
		}
		e.vars[c.Params[i]] = v
	}
	e.oldVars = old
	return e
}

func (vc *VC) lookupLocal(fr *Frame, li *loopInfo, name string, phiVals map[*ssa.Phi]Val) (Val, bool) {
	// 1. phi of the loop header
	for _, instr := range li.header.Instrs {
		phi, ok := instr.(*ssa.Phi)
		if !ok {
			break
		}
		if phi.Comment == name {
			if v, ok := phiVals[phi]; ok {
				return v, true
			}
			return fr.vals[phi], true
		}
	}
	// 1b. address-taken local variable: the contract declares it as a pointer
	for _, b := range fr.fn.Blocks {
		for _, instr := range b.Instrs {
			if a, ok := instr.(*ssa.Alloc); ok && a.Comment == name {
				if v, ok := fr.vals[a]; ok {
					return v, true
				}
			}
		}
	}
	// 2. parameter
	for _, p := range fr.fn.Params {
		if p.Name() == name {
			return fr.vals[p], true
		}
	}
	// 2b. a reference inside the loop to a value defined outside it: the variable is not
	// assigned in the loop (else it would be a header phi), so this is its value at entry
	for _, b := range fr.fn.Blocks {
		if !li.blocks[b] {
			continue
		}
		for _, instr := range b.Instrs {
			dr, ok := instr.(*ssa.DebugRef)
			if !ok || dr.IsAddr {
				continue
			}
			id, ok := dr.Expr.(*ast.Ident)
			if !ok || id.Name != name {
				continue
			}
			if di, ok := dr.X.(ssa.Instruction); ok && li.blocks[di.Block()] {
				continue
			}
			if v, ok := fr.vals[dr.X]; ok {
				return v, true
			}
			if c, ok := dr.X.(*ssa.Const); ok {
				return vc.value(fr, c), true
			}
		}
	}
	// 3. a definition that dominates the header: last DebugRef of a variable of that name
	var best ssa.Value
	var bestBlock *ssa.BasicBlock
	for _, b := range fr.fn.Blocks {
		if !(b.Dominates(li.header)) || (li.blocks[b] && b != li.header) {
			continue
		}
		for _, instr := range b.Instrs {
			dr, ok := instr.(*ssa.DebugRef)
			if !ok || dr.IsAddr {
				continue
			}
			id, ok := dr.Expr.(*ast.Ident)
			if !ok || id.Name != name {
				continue
			}
			if b == li.header {
				// only definitions before the loop body count; header phis handled above
				if _, isPhi := dr.X.(*ssa.Phi); !isPhi {
					continue
				}
			}
			if bestBlock == nil || bestBlock.Dominates(b) {
				best, bestBlock = dr.X, b
			}
		}
	}
	if best != nil {
		if v, ok := fr.vals[best]; ok {
			return v, true
		}
		if c, ok := best.(*ssa.Const); ok {
			return vc.value(fr, c), true
		}
	}
	return Val{}, false
}

// loopModified computes the heaps stored to inside the loop.
func (vc *VC) loopModified(fr *Frame, li *loopInfo, st *State) ([]locTarget, bool) {
	vc.effFrame = fr
	var ts []locTarget
	var pending []pendingTarget
	allocs := false
	var scanFn func(fn *ssa.Function, blocks map[*ssa.BasicBlock]bool, top bool, depth int)
	scanFn = func(fn *ssa.Function, blocks map[*ssa.BasicBlock]bool, top bool, depth int) {
		for _, b := range fn.Blocks {
			if blocks != nil && !blocks[b] {
				continue
			}
			for _, instr := range b.Instrs {
				switch x := instr.(type) {
				case *ssa.Store:
					ts = append(ts, vc.storeTargets(fr, x.Addr, top)...)
				case *ssa.MapUpdate:
					mt := x.Map.Type().Underlying().(*types.Map)
					names, sorts := vc.mapHeaps(st, mt)
					for i := range names {
						ts = append(ts, locTarget{name: names[i], sort: sorts[i], whole: true})
					}
				case *ssa.Next:
					if !x.IsString {
						hn, hs := iterposHeap(vc)
						ts = append(ts, locTarget{name: hn, sort: hs, whole: true})
					}
				case *ssa.Alloc, *ssa.MakeSlice, *ssa.MakeMap, *ssa.MakeInterface:
					allocs = true
					if a, ok := x.(*ssa.Alloc); ok {
						t := a.Type().(*types.Pointer).Elem()
						d := &PtrDesc{Root: rObj, Ref: "?", RootT: t, T: t}
						for _, ll := range vc.leafLocs(d) {
							ts = append(ts, locTarget{name: ll.name, sort: ll.sort, whole: true, freshOnly: true})
						}
					}
					if ms, ok := x.(*ssa.MakeSlice); ok {
						et := ms.Type().Underlying().(*types.Slice).Elem()
						for _, l := range layoutOf(et).Leaves {
							ts = append(ts, locTarget{name: elemHeapName(elemKey(et), l.Path), sort: arrSort(sBV64, arrSort(sBV64, l.Sort)), whole: true, freshOnly: true})
						}
					}
					if mi, ok := x.(*ssa.MakeInterface); ok {
						t := mi.X.Type()
						if _, isPtr := t.Underlying().(*types.Pointer); !isPtr && len(layoutOf(t).Leaves) > 0 {
							d := &PtrDesc{Root: rObj, Ref: "?", RootT: t, T: t}
							for _, ll := range vc.leafLocs(d) {
								ts = append(ts, locTarget{name: ll.name, sort: ll.sort, whole: true, freshOnly: true})
							}
						}
					}
				case ssa.CallInstruction:
					allocs = true
					cc := x.Common()
					if bi, ok := cc.Value.(*ssa.Builtin); ok {
						switch bi.Name() {
						case "copy", "append":
							et := cc.Args[0].Type().Underlying().(*types.Slice).Elem()
							for _, l := range layoutOf(et).Leaves {
								ts = append(ts, locTarget{name: elemHeapName(elemKey(et), l.Path), sort: arrSort(sBV64, arrSort(sBV64, l.Sort)), whole: true, freshOnly: bi.Name() == "append"})
							}
						}
						continue
					}
					if callee, ok := cc.Value.(*ssa.Function); ok && !cc.IsInvoke() {
						if c, ok := vc.w.Contracts[callee.String()]; ok && !c.Raw.Inline {
							if top {
								if pts, ok := vc.preciseCallTargets(fr, c, cc, st); ok {
									pending = append(pending, pts...)
									continue
								}
							}
							for _, n := range vc.contractAssignNames(c) {
								ts = append(ts, n)
							}
							continue
						}
						if inVerifiedPkgs(callee) && len(callee.Blocks) > 0 && depth < maxInlineDepth {
							scanFn(callee, nil, false, depth+1)
							continue
						}
						ts = append(ts, vc.externEffects(callee.String(), cc)...)
						continue
					}
					if cc.IsInvoke() {
						iname := "(" + typeKey(cc.Value.Type()) + ")." + cc.Method.Name()
						if c, ok := vc.w.IfaceContracts[iname]; ok && top {
							if pts, ok := vc.preciseCallTargets(fr, c, cc, st); ok {
								pending = append(pending, pts...)
								continue
							}
						}
						ts = append(ts, vc.externEffects(iname, cc)...)
						continue
					}
					ts = append(ts, vc.externEffects("dyncall:"+typeKey(cc.Value.Type()), cc)...)
				}
			}
		}
	}
	scanFn(fr.fn, li.blocks, true, 0)
	// precise targets are valid only if the heaps read to compute their keys are not modified in the loop
	modified := map[string]bool{}
	for _, t := range ts {
		modified[t.name] = true
	}
	for _, p := range pending {
		modified[p.t.name] = true
	}
	for _, p := range pending {
		ok := true
		for r := range p.reads {
			if modified[r] {
				ok = false
			}
		}
		t := p.t
		if !ok {
			t.whole, t.key = true, ""
		}
		ts = append(ts, t)
	}
	return ts, allocs
}

type pendingTarget struct {
	t     locTarget
	reads map[string]bool
}

// preciseCallTargets evaluates the assigns clauses of a callee for a call whose
// arguments are all defined before the loop.
func (vc *VC) preciseCallTargets(fr *Frame, c *Contract, cc *ssa.CallCommon, st *State) (out []pendingTarget, ok bool) {
	const unav = "?UNAV"
	const freshMark = "?FRESH"
	poison := func(t types.Type) Val {
		v := Val{T: t}
		for range layoutOf(t).Leaves {
			v.L = append(v.L, unav)
		}
		return v
	}
	poisonFor := func(a ssa.Value) Val {
		if _, isAlloc := a.(*ssa.Alloc); isAlloc {
			// an object allocated inside the loop: whatever the callee assigns in it is fresh state
			return Val{T: a.Type(), L: []string{freshMark}}
		}
		return poison(a.Type())
	}
	var args []Val
	if cc.IsInvoke() {
		v, have := fr.vals[cc.Value]
		if !have {
			v = poison(cc.Value.Type())
		}
		args = append(args, v)
	}
	for _, a := range cc.Args {
		switch x := a.(type) {
		case *ssa.Const:
			args = append(args, vc.value(fr, x))
		default:
			v, have := fr.vals[a]
			if !have {
				v = poisonFor(a)
			}
			args = append(args, v)
		}
	}
	defer func() {
		if r := recover(); r != nil {
			vc.readLog = nil
			out, ok = nil, false
		}
	}()
	env := vc.contractEnv(c, args, nil, st, nil)
	for _, cl := range vc.clauses(c) {
		if cl.Raw.Kind != "assigns" || cl.Raw.Loop != -1 {
			continue
		}
		for k, loc := range cl.Locs {
			vc.readLog = map[string]bool{}
			ts := vc.evalLoc(env, loc, cl.Whole[k])
			reads := vc.readLog
			vc.readLog = nil
			for _, t := range ts {
				if strings.Contains(t.key, unav) {
					t.whole, t.key = true, ""
				} else if strings.Contains(t.key, freshMark) {
					t.whole, t.key, t.freshOnly = true, "", true
				}
				out = append(out, pendingTarget{t: t, reads: reads})
			}
		}
	}
	return out, true
}

// storeTargets: heaps (and precise keys, when loop invariant) written by a store through addr.
func (vc *VC) storeTargets(fr *Frame, addr ssa.Value, top bool) []locTarget {
	// resolve the address chain statically
	var path []string
	cur := addr
	inElem := false
	var elemT types.Type
	for {
		switch a := cur.(type) {
		case *ssa.FieldAddr:
			stt := deref(a.X.Type()).Underlying().(*types.Struct)
			path = append([]string{stt.Field(a.Field).Name()}, path...)
			cur = a.X
			continue
		case *ssa.IndexAddr:
			// element store
			switch bt := a.X.Type().Underlying().(type) {
			case *types.Slice:
				elemT = bt.Elem()
			case *types.Pointer:
				elemT = bt.Elem().Underlying().(*types.Array).Elem()
			}
			inElem = true
			_ = inElem
			sub := strings.Join(path, ".")
			t := deref(addr.Type())
			var out []locTarget
			d := &PtrDesc{InElem: true, Aid: "?", Idx: "?", ElemT: elemT, Sub: sub, T: t}
			for _, ll := range vc.leafLocs(d) {
				out = append(out, locTarget{name: ll.name, sort: ll.sort, whole: true})
			}
			// precise key when the array is an embedded array of a loop-invariant object
			if top {
				if key, ok := vc.invariantArrayKey(fr, a.X); ok {
					for i := range out {
						out[i].whole = false
						out[i].key = key
					}
					return out
				}
			}
			if rootIsLocalAlloc(a.X) {
				for i := range out {
					out[i].freshOnly = true
				}
			}
			return out
		}
		break
	}
	rootT := deref(cur.Type())
	t := deref(addr.Type())
	if g, ok := cur.(*ssa.Global); ok {
		var out []locTarget
		for k, s := range nestedLeafSorts(g.Type().(*types.Pointer).Elem()) {
			out = append(out, locTarget{name: fmt.Sprintf("%s!%d", globHeapName(globalName(g)), k), sort: s, whole: true})
		}
		return out
	}
	d := &PtrDesc{Root: rObj, Ref: "?", RootT: rootT, Path: strings.Join(path, "."), T: t}
	var out []locTarget
	for _, ll := range vc.leafLocs(d) {
		out = append(out, locTarget{name: ll.name, sort: ll.sort, whole: true})
	}
	if _, isAlloc := cur.(*ssa.Alloc); isAlloc {
		if _, done := fr.vals[cur]; !done || !top {
			for i := range out {
				out[i].freshOnly = true
			}
		}
	}
	if top {
		if v, ok := fr.vals[cur]; ok && len(v.L) == 1 {
			// value already computed => defined before the loop (loop body not yet executed)
			d.Ref = v.L[0]
			out = nil
			for _, ll := range vc.leafLocs(d) {
				out = append(out, locTarget{name: ll.name, sort: ll.sort, key: ll.key})
			}
		}
	}
	return out
}

func (vc *VC) invariantArrayKey(fr *Frame, arr ssa.Value) (string, bool) {
	// arr is a pointer to array (chain of FieldAddr from an object) or a slice value
	if _, ok := arr.Type().Underlying().(*types.Slice); ok {
		if v, ok := fr.vals[arr]; ok {
			return v.L[0], true
		}
		return "", false
	}
	var path []string
	cur := arr
	for {
		fa, ok := cur.(*ssa.FieldAddr)
		if !ok {
			break
		}
		stt := deref(fa.X.Type()).Underlying().(*types.Struct)
		path = append([]string{stt.Field(fa.Field).Name()}, path...)
		cur = fa.X
	}
	v, ok := fr.vals[cur]
	if !ok || len(v.L) != 1 {
		return "", false
	}
	k := 0
	if len(path) > 0 {
		k = arrFieldIndex(structKey(deref(cur.Type())), strings.Join(path, "."))
	}
	return aidOf(v.L[0], k), true
}

// contractAssignNames: heap names a contract may assign (all treated as whole).
func (vc *VC) contractAssignNames(c *Contract) []locTarget {
	// evaluate with dummy parameter values to obtain heap names
	args := make([]Val, c.NIn)
	for i := 0; i < c.NIn; i++ {
		t := c.Params[i].Type()
		v := Val{T: t}
		for range layoutOf(t).Leaves {
			v.L = append(v.L, "?")
		}
		args[i] = v
	}
	dummy := &State{heap: newHeap(), alloc: "?", cond: "true"}
	env := vc.contractEnv(c, args, nil, dummy, nil)
	savedDecl := len(vc.prelude)
	ts := vc.assignTargets(c, env, -1)
	_ = savedDecl
	for i := range ts {
		ts[i].whole = true
		ts[i].key = ""
	}
	return ts
}

func (vc *VC) enterLoop(fr *Frame, li *loopInfo, in *State) *State {
	if vc.curContract == nil || fr.fn != vc.fn {
		vc.unsupported("loop in inlined function %s", fr.fn)
	}
	invs := vc.loopClauses(li, "invariant")
	if len(invs) == 0 {
		vc.unsupported("loop %d of %s has no invariant", li.ordinal, fr.fn)
	}
	// 1. invariant holds on entry (phis already hold the merged entry values)
	envIn := vc.localEnv(fr, li, in, nil)
	for _, cl := range invs {
		vc.oblige(in, fmt.Sprintf("inv-init.%d", li.ordinal), cl.Raw.Label, vc.specBool(envIn, cl.Expr), li.header.Instrs[0].Pos(), vc.clauseProps(vc.curContract, cl))
	}
	// 2. havoc
	mods, allocs := vc.loopModified(fr, li, in)
	// explicit loop assigns clauses give precise keys for heaps the analysis can only havoc wholesale;
	// they are checked on every back edge (checkLoopBack)
	user := vc.assignTargets(vc.curContract, envIn, li.ordinal)
	if len(user) > 0 {
		li.userTargets = user
		covered := map[string]bool{}
		for _, u := range user {
			covered[u.name] = true
		}
		var kept []locTarget
		for _, m := range mods {
			if !covered[m.name] {
				kept = append(kept, m)
			}
		}
		mods = append(kept, user...)
	}
	st := in.clone()
	vc.havocTargets(st, mods)
	if allocs {
		na := vc.freshConst("al", sBV64)
		vc.assume(st.cond, and(app("bvuge", na, in.alloc), app("bvult", na, bvLit(64, 1<<46))))
		st.alloc = na
	}
	for _, instr := range li.header.Instrs {
		phi, ok := instr.(*ssa.Phi)
		if !ok {
			break
		}
		v := Val{T: phi.Type()}
		for k, l := range layoutOf(phi.Type()).Leaves {
			v.L = append(v.L, vc.freshConst(fmt.Sprintf("v%d!%s!h%d", fr.id, phi.Name(), k), l.Sort))
		}
		fr.vals[phi] = v
		vc.assumeWellFormed(st, v)
	}
	// 3. assume invariant
	envH := vc.localEnv(fr, li, st, nil)
	for _, cl := range invs {
		vc.assume(st.cond, vc.specBool(envH, cl.Expr))
	}
	// 3b. lemma instances over the loop-head state (loop N use lemma(args)): valid facts
	for _, cl := range vc.loopClauses(li, "use") {
		vc.assume(st.cond, vc.specBool(envH, cl.Expr))
		vc.trusted["lemma instance "+cl.Raw.Text+" (proved separately as a lemma obligation)"] = true
	}
	// 4. variant
	if ds := vc.loopClauses(li, "decreases"); len(ds) > 0 {
		v := envH.eval(ds[0].Expr)
		li.variant0 = vc.define("var0", sBV64, bvExtend(v.L[0], widthOf(v.T), 64, isSigned(v.T)))
	} else {
		vc.unsupported("loop %d of %s has no decreases clause", li.ordinal, fr.fn)
	}
	li.havocSt = st
	return st
}

func (vc *VC) checkLoopBack(fr *Frame, li *loopInfo, src *ssa.BasicBlock, st *State) {
	phiVals := map[*ssa.Phi]Val{}
	var pi int
	for k, p := range li.header.Preds {
		if p == src {
			pi = k
		}
	}
	for _, instr := range li.header.Instrs {
		phi, ok := instr.(*ssa.Phi)
		if !ok {
			break
		}
		phiVals[phi] = vc.value(fr, phi.Edges[pi])
	}
	env := vc.localEnv(fr, li, st, phiVals)
	for _, cl := range vc.loopClauses(li, "invariant") {
		vc.oblige(st, fmt.Sprintf("inv-pres.%d", li.ordinal), cl.Raw.Label, vc.specBool(env, cl.Expr), src.Instrs[len(src.Instrs)-1].Pos(), vc.clauseProps(vc.curContract, cl))
	}
	// loop frame: heaps with user-supplied assigns keys change only at those keys
	byName := map[string][]locTarget{}
	for _, u := range li.userTargets {
		byName[u.name] = append(byName[u.name], u)
	}
	for name, us := range byName {
		srt := vc.heapSort[name]
		head := vc.heapTerm(li.havocSt, name, srt)
		cur := vc.heapTerm(st, name, srt)
		if head == cur {
			continue
		}
		whole := false
		var conds []string
		key := vc.freshConst("lfk", indexSortOf(srt))
		for _, u := range us {
			if u.whole || u.key == "" {
				whole = true
			}
			conds = append(conds, not(eq(key, u.key)))
		}
		if whole {
			continue
		}
		// objects and arrays allocated during the iteration are not part of the loop's frame
		if strings.HasPrefix(name, "A!") && indexSortOf(srt) == sBV64 {
			conds = append(conds, app("bvult", "((_ zero_extend 16) ((_ extract 63 16) "+key+"))", li.havocSt.alloc))
		} else if strings.HasPrefix(name, "H!") && indexSortOf(srt) == sBV64 {
			conds = append(conds, app("bvult", key, li.havocSt.alloc))
		}
		vc.oblige(st, fmt.Sprintf("loop-frame.%d", li.ordinal), name, imp(and(conds...), eq(sel(cur, key), sel(head, key))), src.Instrs[len(src.Instrs)-1].Pos(), nil)
	}
	if ds := vc.loopClauses(li, "decreases"); len(ds) > 0 {
		v := env.eval(ds[0].Expr)
		v1 := bvExtend(v.L[0], widthOf(v.T), 64, isSigned(v.T))
		vc.oblige(st, fmt.Sprintf("variant.%d", li.ordinal), "", and(app("bvsle", bvLit(64, 0), li.variant0), app("bvslt", v1, li.variant0)), src.Instrs[len(src.Instrs)-1].Pos(), vc.clauseProps(vc.curContract, ds[0]))
	}
}

// rootIsLocalAlloc: the array/slice being indexed is (a field of) an object
// allocated by an Alloc/MakeSlice instruction.
func rootIsLocalAlloc(v ssa.Value) bool {
	for {
		switch x := v.(type) {
		case *ssa.FieldAddr:
			v = x.X
		case *ssa.Alloc, *ssa.MakeSlice:
			return true
		default:
			return false
		}
	}
}

// optedOut: every method of the interface implemented by T has a contract marked nosubtype.
func (w *World) optedOut(T types.Type, it *types.Interface) bool {
	for i := 0; i < it.NumMethods(); i++ {
		m := it.Method(i)
		sel := w.Prog.MethodSets.MethodSet(T).Lookup(m.Pkg(), m.Name())
		if sel == nil {
			return false
		}
		fn := w.Prog.MethodValue(sel)
		if fn == nil {
			return false
		}
		c, ok := w.Contracts[fn.String()]
		if !ok || !c.Raw.NoSubtype {
			return false
		}
	}
	return it.NumMethods() > 0
}

// callsiteClauses: `callsite <callee> expr` clauses of the function under
// verification are obligations at every call of <callee> in its body; the
// expression may use the parameters and the declared locals, bound to their
// values at the call.
func (vc *VC) callsiteClauses(fr *Frame, site *ssa.Call, callee string, st *State) {
	c := vc.curContract
	if c == nil {
		return
	}
	for _, cl := range vc.clauses(c) {
		if cl.Raw.Kind != "callsite" || cl.Raw.Callee != callee {
			continue
		}
		e := &SpecEnv{vc: vc, pkg: c.Pkg, vars: map[types.Object]Val{}, st: st, old: vc.entry}
		old := map[types.Object]Val{}
		for i := 0; i < c.NIn; i++ {
			old[c.Params[i]] = fr.vals[fr.fn.Params[i]]
			e.vars[c.Params[i]] = fr.vals[fr.fn.Params[i]]
			if v, ok := vc.localAt(fr, site, c.Params[i].Name()); ok {
				e.vars[c.Params[i]] = v
			}
		}
		for i := c.NIn + c.NRes; i < len(c.Params); i++ {
			if v, ok := vc.localAt(fr, site, c.Params[i].Name()); ok {
				if !types.Identical(v.T, c.Params[i].Type()) && len(v.L) == len(layoutOf(c.Params[i].Type()).Leaves) {
					v = Val{T: c.Params[i].Type(), L: v.L}
				}
				e.vars[c.Params[i]] = v
			}
		}
		e.oldVars = old
		// a clause that mentions a local which has no value yet at this call does not apply here
		// (it must apply somewhere: see callsiteCoverage)
		g, applies := func() (g string, ok bool) {
			defer func() {
				if r := recover(); r != nil {
					if os, isOut := r.(outsideSubset); isOut && strings.Contains(os.msg, "unbound identifier") {
						g, ok = "", false
						return
					}
					panic(r)
				}
			}()
			return vc.specBool(e, cl.Expr), true
		}()
		if !applies {
			continue
		}
		if vc.callsiteHits == nil {
			vc.callsiteHits = map[*Clause]int{}
		}
		vc.callsiteHits[cl]++
		vc.oblige(st, "callsite."+callee, cl.Raw.Label, g, site.Pos(), vc.clauseProps(c, cl))
	}
}

// callsiteCoverage: every callsite clause applied at least once in the body.
func (vc *VC) callsiteCoverage(c *Contract) {
	for _, cl := range vc.clauses(c) {
		if cl.Raw.Kind != "callsite" || vc.callsiteHits[cl] > 0 {
			continue
		}
		o := &Obligation{Name: fmt.Sprintf("%s#callsite.%s.%s.applies", vc.fnName(), cl.Raw.Callee, cl.Raw.Label), Kind: "callsite", Fn: vc.fnName(), Props: vc.clauseProps(c, cl),
			Expect: "unsat", Solver: "ground", Status: "sat", Goal: "false", Cond: "true"}
		o.Output = "the clause never applied: no call of " + cl.Raw.Callee + " at which all the locals it mentions have a value"
		o.Model = o.Output
		vc.obls = append(vc.obls, o)
	}
}

// localAt: the value of source variable name at instruction site: the value of
// the closest preceding reference (DebugRef) in a dominating block.
var reCallResult = regexp.MustCompile(`^res_([A-Za-z0-9]+)_([0-9]+)$`)

var reCallArg = regexp.MustCompile(`^callarg([0-9]+)$`)

func (vc *VC) localAt(fr *Frame, site ssa.Instruction, name string) (Val, bool) {
	sb := site.Block()
	// pseudo local callarg<k> (callsite clauses only): the k-th operand of the call the clause is checked at
	// (for a method call operand 0 is the receiver) - what is passed, whatever the source calls it
	if m := reCallArg.FindStringSubmatch(name); m != nil {
		call, ok := site.(*ssa.Call)
		k, _ := strconv.Atoi(m[1])
		if !ok || call.Call.IsInvoke() || k >= len(call.Call.Args) {
			return Val{}, false
		}
		return vc.value(fr, call.Call.Args[k]), true
	}
	// pseudo local res_<Callee>_<n>: the result of the n-th call (in block order) of a function or method
	// of that name, provided the call dominates the site - a name for values the source leaves unnamed
	if m := reCallResult.FindStringSubmatch(name); m != nil {
		want, _ := strconv.Atoi(m[2])
		n := 0
		for _, b := range fr.fn.Blocks {
			for _, instr := range b.Instrs {
				call, ok := instr.(*ssa.Call)
				if !ok {
					continue
				}
				cn := ""
				if call.Call.IsInvoke() {
					cn = call.Call.Method.Name()
				} else if f := call.Call.StaticCallee(); f != nil {
					cn = f.Name()
				}
				if cn != m[1] {
					continue
				}
				n++
				if n == want {
					if !b.Dominates(sb) {
						return Val{}, false
					}
					v, ok := fr.vals[call]
					return v, ok
				}
			}
		}
		return Val{}, false
	}
	var best ssa.Value
	var bestBlock *ssa.BasicBlock
	for _, b := range fr.fn.Blocks {
		if !b.Dominates(sb) {
			continue
		}
		for _, instr := range b.Instrs {
			if b == sb && instr == site {
				break
			}
			dr, ok := instr.(*ssa.DebugRef)
			if !ok || dr.IsAddr {
				continue
			}
			id, ok := dr.Expr.(*ast.Ident)
			if !ok || id.Name != name {
				continue
			}
			if bestBlock == nil || bestBlock.Dominates(b) {
				best, bestBlock = dr.X, b
			}
		}
	}
	if best == nil {
		return Val{}, false
	}
	if v, ok := fr.vals[best]; ok {
		return v, true
	}
	if cst, ok := best.(*ssa.Const); ok {
		return vc.value(fr, cst), true
	}
	return Val{}, false
}
