package main

// Translation of typed spec expressions (overlay AST) to SMT terms.

import (
	"fmt"
	"go/ast"
	"go/constant"
	"go/token"
	"go/types"
	"regexp"
	"strings"

	"golang.org/x/tools/go/packages"
)

type Val struct {
	T types.Type
	L []string
}

type SpecEnv struct {
	vc      *VC
	pkg     *packages.Package
	vars    map[types.Object]Val
	oldVars map[types.Object]Val
	st      *State // current state
	old     *State // pre-state (may be nil: same as st)
	depth   int
}

type specErr struct{ msg string }

func (e *SpecEnv) fail(n ast.Node, format string, a ...interface{}) {
	pos := e.pkg.Fset.Position(n.Pos())
	panic(specErr{fmt.Sprintf("%s: %s", pos, fmt.Sprintf(format, a...))})
}

func (e *SpecEnv) typeOf(x ast.Expr) types.Type {
	tv, ok := e.pkg.TypesInfo.Types[x]
	if !ok {
		if id, ok := x.(*ast.Ident); ok {
			if o := e.pkg.TypesInfo.Uses[id]; o != nil {
				return o.Type()
			}
			if o := e.pkg.TypesInfo.Defs[id]; o != nil {
				return o.Type()
			}
		}
		e.fail(x, "no type for expression")
	}
	return tv.Type
}

func (e *SpecEnv) inOld() *SpecEnv {
	n := *e
	if e.old != nil {
		n.st = e.old
	}
	if e.oldVars != nil {
		n.vars = e.oldVars
		// bound variables (quantifiers) are kept
		merged := map[types.Object]Val{}
		for k, v := range e.vars {
			merged[k] = v
		}
		for k, v := range e.oldVars {
			merged[k] = v
		}
		n.vars = merged
	}
	return &n
}

// boolTerm evaluates a boolean spec expression.
func (e *SpecEnv) boolTerm(x ast.Expr) string {
	v := e.eval(x)
	if len(v.L) != 1 {
		e.fail(x, "expected boolean")
	}
	return v.L[0]
}

func (e *SpecEnv) eval(x ast.Expr) Val {
	vc := e.vc
	info := e.pkg.TypesInfo
	if tv, ok := info.Types[x]; ok && tv.Value != nil {
		t := tv.Type
		if b, ok := t.(*types.Basic); ok && b.Info()&types.IsUntyped != 0 {
			t = types.Default(t)
		}
		return vc.constVal(t, tv.Value)
	}
	switch x := x.(type) {
	case *ast.ParenExpr:
		return e.eval(x.X)
	case *ast.Ident:
		if x.Name == "nil" {
			return vc.zeroVal(e.typeOf(x))
		}
		if x.Name == "true" {
			return Val{T: types.Typ[types.Bool], L: []string{"true"}}
		}
		if x.Name == "false" {
			return Val{T: types.Typ[types.Bool], L: []string{"false"}}
		}
		obj := info.Uses[x]
		if obj == nil {
			obj = info.Defs[x]
		}
		if v, ok := e.vars[obj]; ok {
			return v
		}
		if gv, ok := obj.(*types.Var); ok && gv.Parent() == gv.Pkg().Scope() {
			return vc.loadGlobalVar(e.st, gv)
		}
		e.fail(x, "unbound identifier %s", x.Name)
	case *ast.UnaryExpr:
		switch x.Op {
		case token.NOT:
			return Val{T: e.typeOf(x), L: []string{not(e.boolTerm(x.X))}}
		case token.SUB:
			v := e.eval(x.X)
			if isFloat(v.T) {
				return Val{T: v.T, L: []string{app("fp.neg", v.L[0])}}
			}
			return Val{T: v.T, L: []string{app("bvneg", v.L[0])}}
		case token.XOR:
			v := e.eval(x.X)
			return Val{T: v.T, L: []string{app("bvnot", v.L[0])}}
		case token.ADD:
			return e.eval(x.X)
		}
		e.fail(x, "unsupported unary operator %s", x.Op)
	case *ast.BinaryExpr:
		switch x.Op {
		case token.LAND:
			return Val{T: e.typeOf(x), L: []string{and(e.boolTerm(x.X), e.boolTerm(x.Y))}}
		case token.LOR:
			return Val{T: e.typeOf(x), L: []string{or(e.boolTerm(x.X), e.boolTerm(x.Y))}}
		}
		a := e.eval(x.X)
		b := e.eval(x.Y)
		// shifts: operand types differ
		t := e.typeOf(x)
		r, err := vc.binop(x.Op, a, b, t)
		if err != nil {
			e.fail(x, "%v", err)
		}
		return r
	case *ast.StarExpr:
		p := e.eval(x.X)
		pt := p.T.Underlying().(*types.Pointer)
		d := &PtrDesc{Root: rObj, Ref: p.L[0], RootT: pt.Elem(), T: pt.Elem()}
		return vc.loadDesc(e.st, d)
	case *ast.SelectorExpr:
		// package-qualified identifier?
		if id, ok := x.X.(*ast.Ident); ok {
			if _, ok := info.Uses[id].(*types.PkgName); ok {
				obj := info.Uses[x.Sel]
				if gv, ok := obj.(*types.Var); ok {
					return vc.loadGlobalVar(e.st, gv)
				}
				e.fail(x, "unsupported qualified identifier")
			}
		}
		sel := info.Selections[x]
		if sel == nil || sel.Kind() != types.FieldVal {
			e.fail(x, "unsupported selector (method value?)")
		}
		base := e.eval(x.X)
		return e.selectPath(x, base, sel.Index())
	case *ast.IndexExpr:
		// generic instantiation handled in CallExpr
		base := e.eval(x.X)
		idx := e.eval(x.Index)
		if mt, ok := base.T.Underlying().(*types.Map); ok {
			return vc.mapLookup(e.st, base, idx, mt)
		}
		i64 := bvExtend(idx.L[0], widthOf(idx.T), 64, isSigned(idx.T))
		switch bt := base.T.Underlying().(type) {
		case *types.Slice:
			d := &PtrDesc{InElem: true, Aid: base.L[0], Idx: app("bvadd", base.L[1], i64), ElemT: bt.Elem(), T: bt.Elem()}
			return vc.loadDesc(e.st, d)
		case *types.Array:
			v := Val{T: bt.Elem()}
			for k := range base.L {
				v.L = append(v.L, sel(base.L[k], i64))
			}
			return v
		case *types.Basic: // string
			return Val{T: types.Typ[types.Uint8], L: []string{vc.strByte(base, i64)}}
		case *types.Map:
			return vc.mapLookup(e.st, base, idx, bt)
		case *types.Pointer:
			if at, ok := bt.Elem().Underlying().(*types.Array); ok {
				d := &PtrDesc{Root: rObj, Ref: base.L[0], RootT: bt.Elem(), T: bt.Elem()}
				ed := vc.indexDesc(d, at, i64)
				return vc.loadDesc(e.st, ed)
			}
		}
		e.fail(x, "unsupported index base type %s", base.T)
	case *ast.SliceExpr:
		if at, ok := e.typeOf(x.X).Underlying().(*types.Array); ok {
			// slice of an array field reached through a pointer: p.f.g[lo:hi]
			path := []string{}
			var cur ast.Expr = x.X
			for {
				se, ok := cur.(*ast.SelectorExpr)
				if !ok {
					e.fail(x, "slice of an array that is not a field path below a pointer")
				}
				path = append([]string{se.Sel.Name}, path...)
				bt := e.typeOf(se.X)
				if pt, ok := bt.Underlying().(*types.Pointer); ok {
					base := e.eval(se.X)
					k := arrFieldIndex(structKey(pt.Elem()), strings.Join(path, "."))
					n := bvLit(64, uint64(at.Len()))
					lo, hi := bvLit(64, 0), n
					if x.Low != nil {
						lo = e.eval(x.Low).L[0]
					}
					if x.High != nil {
						hi = e.eval(x.High).L[0]
					}
					return Val{T: types.NewSlice(at.Elem()), L: []string{aidOf(base.L[0], k), lo, app("bvsub", hi, lo), app("bvsub", n, lo)}}
				}
				cur = se.X
			}
		}
		base := e.eval(x.X)
		st, ok := base.T.Underlying().(*types.Slice)
		if !ok {
			e.fail(x, "slice expression on non-slice in spec")
		}
		lo := bvLit(64, 0)
		if x.Low != nil {
			lo = e.eval(x.Low).L[0]
		}
		hi := base.L[2]
		if x.High != nil {
			hi = e.eval(x.High).L[0]
		}
		_ = st
		return Val{T: base.T, L: []string{base.L[0], app("bvadd", base.L[1], lo), app("bvsub", hi, lo), app("bvsub", base.L[3], lo)}}
	case *ast.CallExpr:
		return e.evalCall(x)
	case *ast.TypeAssertExpr:
		iv := e.eval(x.X)
		t := e.typeOf(x)
		return vc.unbox(e.st, iv, t)
	case *ast.CompositeLit:
		t := e.typeOf(x)
		if st, ok := t.Underlying().(*types.Struct); ok {
			v := vc.zeroVal(t)
			lay := layoutOf(t)
			for i, el := range x.Elts {
				var fname string
				var valx ast.Expr
				if kv, ok := el.(*ast.KeyValueExpr); ok {
					fname = kv.Key.(*ast.Ident).Name
					valx = kv.Value
				} else {
					fname = st.Field(i).Name()
					valx = el
				}
				fv := e.eval(valx)
				k := 0
				for li, l := range lay.Leaves {
					if l.Path == fname || strings.HasPrefix(l.Path, fname+".") || strings.HasPrefix(l.Path, fname+"#") {
						v.L[li] = fv.L[k]
						k++
					}
				}
			}
			return v
		}
		e.fail(x, "unsupported composite literal")
	}
	e.fail(x, "unsupported spec expression %T", x)
	panic("unreachable")
}

// selectPath selects a (possibly embedded/indirect) field path from a value.
func (e *SpecEnv) selectPath(n ast.Node, base Val, index []int) Val {
	vc := e.vc
	cur := base
	for _, fi := range index {
		t := cur.T
		if pt, ok := t.Underlying().(*types.Pointer); ok {
			// load the field through the pointer
			stt := pt.Elem().Underlying().(*types.Struct)
			f := stt.Field(fi)
			d := &PtrDesc{Root: rObj, Ref: cur.L[0], RootT: pt.Elem(), Path: f.Name(), T: f.Type()}
			cur = vc.loadDesc(e.st, d)
			continue
		}
		stt, ok := t.Underlying().(*types.Struct)
		if !ok {
			e.fail(n, "selector on non-struct %s", t)
		}
		cur = fieldOfVal(cur, stt, fi)
	}
	return cur
}

// fieldOfVal extracts field fi of a struct value.
func fieldOfVal(v Val, stt *types.Struct, fi int) Val {
	off := 0
	for i := 0; i < fi; i++ {
		off += len(layoutOf(stt.Field(i).Type()).Leaves)
	}
	n := len(layoutOf(stt.Field(fi).Type()).Leaves)
	return Val{T: stt.Field(fi).Type(), L: append([]string(nil), v.L[off:off+n]...)}
}

func (e *SpecEnv) evalCall(x *ast.CallExpr) Val {
	vc := e.vc
	info := e.pkg.TypesInfo
	// conversion?
	if tv, ok := info.Types[x.Fun]; ok && tv.IsType() {
		v := e.eval(x.Args[0])
		r, err := vc.convert(v, tv.Type)
		if err != nil {
			e.fail(x, "%v", err)
		}
		return r
	}
	fun := x.Fun
	var typeArgs []ast.Expr
	if ix, ok := fun.(*ast.IndexExpr); ok {
		fun = ix.X
		typeArgs = []ast.Expr{ix.Index}
	}
	var name string
	var obj types.Object
	switch f := fun.(type) {
	case *ast.Ident:
		name = f.Name
		obj = info.Uses[f]
	case *ast.SelectorExpr:
		name = f.Sel.Name
		obj = info.Uses[f.Sel]
	}
	if _, ok := obj.(*types.Builtin); ok {
		switch name {
		case "len":
			v := e.eval(x.Args[0])
			switch t := v.T.Underlying().(type) {
			case *types.Slice:
				return Val{T: types.Typ[types.Int], L: []string{v.L[2]}}
			case *types.Basic:
				return Val{T: types.Typ[types.Int], L: []string{v.L[2]}}
			case *types.Array:
				return Val{T: types.Typ[types.Int], L: []string{bvLit(64, uint64(t.Len()))}}
			case *types.Map:
				return Val{T: types.Typ[types.Int], L: []string{vc.mapLen(e.st, v, t)}}
			}
		case "cap":
			v := e.eval(x.Args[0])
			if _, ok := v.T.Underlying().(*types.Slice); ok {
				return Val{T: types.Typ[types.Int], L: []string{v.L[3]}}
			}
		}
		e.fail(x, "unsupported builtin %s in spec", name)
	}
	switch name {
	case "govcOld":
		return e.inOld().eval(x.Args[0])
	case "govcImp":
		return Val{T: types.Typ[types.Bool], L: []string{imp(e.boolTerm(x.Args[0]), e.boolTerm(x.Args[1]))}}
	case "govcIff":
		return Val{T: types.Typ[types.Bool], L: []string{eq(e.boolTerm(x.Args[0]), e.boolTerm(x.Args[1]))}}
	case "govcIte":
		c := e.boolTerm(x.Args[0])
		a := e.eval(x.Args[1])
		b := e.eval(x.Args[2])
		r := Val{T: a.T}
		for k := range a.L {
			r.L = append(r.L, ite(c, a.L[k], b.L[k]))
		}
		return r
	case "govcForall", "govcExists":
		lo := e.eval(x.Args[0]).L[0]
		hi := e.eval(x.Args[1]).L[0]
		fl := x.Args[2].(*ast.FuncLit)
		pn := fl.Type.Params.List[0].Names[0]
		pobj := info.Defs[pn]
		bv := vc.fresh("q_" + pn.Name)
		ne := *e
		ne.vars = map[types.Object]Val{}
		for k, v := range e.vars {
			ne.vars[k] = v
		}
		ne.vars[pobj] = Val{T: types.Typ[types.Int], L: []string{bv}}
		if e.oldVars != nil {
			ne.oldVars = map[types.Object]Val{}
			for k, v := range e.oldVars {
				ne.oldVars[k] = v
			}
			ne.oldVars[pobj] = ne.vars[pobj]
		}
		body := ne.boolTerm(fl.Body.List[0].(*ast.ReturnStmt).Results[0])
		rng := and(app("bvsle", lo, bv), app("bvslt", bv, hi))
		if name == "govcForall" {
			pat := selectPattern(body, bv)
			if vc.curContract != nil && vc.curContract.Raw.InnerPatterns {
				pat = selectPatternInner(body, bv)
			}
			if pat != "" {
				// re-index so that the trigger has a bare bound variable as index:
				// (select A (bvadd OFF k))  ~>  (select A q) with q = OFF + k
				if arr, idx, ok := splitSelect(pat); ok && strings.HasPrefix(idx, "(bvadd ") && strings.HasSuffix(idx, " "+bv+")") {
					off := idx[len("(bvadd ") : len(idx)-len(" "+bv+")")]
					if !containsSym(off, bv) {
						q := vc.fresh("q_abs")
						nb := strings.ReplaceAll(imp(rng, body), idx, q)
						nb = replaceSym(nb, bv, "(bvsub "+q+" "+off+")")
						vc.rangeForms(q, arr, off, lo, hi)
						return Val{T: types.Typ[types.Bool], L: []string{fmt.Sprintf("(forall ((%s %s)) (! %s :pattern ((select %s %s))))", q, sBV64, nb, arr, q)}}
					}
				}
				if arr, idx, ok := splitSelect(pat); ok && idx == bv {
					vc.rangeForms(bv, arr, "", lo, hi)
				}
				return Val{T: types.Typ[types.Bool], L: []string{fmt.Sprintf("(forall ((%s %s)) (! %s :pattern (%s)))", bv, sBV64, imp(rng, body), pat)}}
			}
			return Val{T: types.Typ[types.Bool], L: []string{fmt.Sprintf("(forall ((%s %s)) %s)", bv, sBV64, imp(rng, body))}}
		}
		return Val{T: types.Typ[types.Bool], L: []string{fmt.Sprintf("(exists ((%s %s)) %s)", bv, sBV64, and(rng, body))}}
	case "govcForallT", "govcExistsT":
		fl := x.Args[0].(*ast.FuncLit)
		pn := fl.Type.Params.List[0].Names[0]
		pobj := info.Defs[pn]
		pt := pobj.Type()
		lay := layoutOf(pt)
		if len(lay.Leaves) != 1 {
			e.fail(x, "quantified variable must be scalar")
		}
		bv := vc.fresh("q_" + pn.Name)
		ne := *e
		ne.vars = map[types.Object]Val{}
		for k, v := range e.vars {
			ne.vars[k] = v
		}
		ne.vars[pobj] = Val{T: pt, L: []string{bv}}
		if e.oldVars != nil {
			ne.oldVars = map[types.Object]Val{}
			for k, v := range e.oldVars {
				ne.oldVars[k] = v
			}
			ne.oldVars[pobj] = ne.vars[pobj]
		}
		body := ne.boolTerm(fl.Body.List[0].(*ast.ReturnStmt).Results[0])
		q := "forall"
		if name == "govcExistsT" {
			q = "exists"
		}
		return Val{T: types.Typ[types.Bool], L: []string{fmt.Sprintf("(%s ((%s %s)) %s)", q, bv, lay.Leaves[0].Sort, body)}}
	case "govcFresh":
		v := e.eval(x.Args[0])
		oa := e.st.alloc
		if e.old != nil {
			oa = e.old.alloc
		}
		if n, ok := isOpaqueNamed(v.T); ok && n == "reflect.Value" {
			return Val{T: types.Typ[types.Bool], L: []string{and(app("bvuge", v.L[iObj], oa), app("bvult", v.L[iObj], e.st.alloc))}}
		}
		switch v.T.Underlying().(type) {
		case *types.Pointer:
			return Val{T: types.Typ[types.Bool], L: []string{and(app("bvuge", v.L[0], oa), app("bvult", v.L[0], e.st.alloc))}}
		case *types.Slice:
			r := "((_ zero_extend 16) ((_ extract 63 16) " + v.L[0] + "))"
			return Val{T: types.Typ[types.Bool], L: []string{and(app("bvuge", r, oa), app("bvult", r, e.st.alloc), eq("((_ extract 15 0) "+v.L[0]+")", bvLit(16, 0)))}}
		case *types.Interface:
			return Val{T: types.Typ[types.Bool], L: []string{and(app("bvuge", v.L[1], oa), app("bvult", v.L[1], e.st.alloc))}}
		}
		e.fail(x, "fresh() of unsupported type")
	case "govcSame":
		a := e.eval(x.Args[0])
		b := e.eval(x.Args[1])
		var cs []string
		lay := layoutOf(a.T)
		for k := range a.L {
			if lay.Leaves[k].Sort == sF32 || lay.Leaves[k].Sort == sF64 {
				// same bits or both NaN
				cs = append(cs, or(eq(a.L[k], b.L[k])))
			} else {
				cs = append(cs, eq(a.L[k], b.L[k]))
			}
		}
		return Val{T: types.Typ[types.Bool], L: []string{and(cs...)}}
	case "govcSameBase":
		a := e.eval(x.Args[0])
		b := e.eval(x.Args[1])
		return Val{T: types.Typ[types.Bool], L: []string{eq(a.L[0], b.L[0])}}
	case "govcOffset":
		a := e.eval(x.Args[0])
		return Val{T: types.Typ[types.Int], L: []string{a.L[1]}}
	case "govcRVNumField":
		vc.declareRVFuncs()
		return Val{T: types.Typ[types.Int], L: []string{app("RVNumField", e.eval(x.Args[0]).L[0])}}
	case "govcRVClass", "govcRVWidth", "govcRVEClass", "govcRVEWidth", "govcRVTypeTag", "govcRVRow":
		vc.declareRVFuncs()
		return Val{T: types.Typ[types.Int], L: []string{app(strings.TrimPrefix(name, "govc"), e.eval(x.Args[0]).L[0], e.eval(x.Args[1]).L[0])}}
	case "govcTypeTag":
		tt := info.Types[typeArgs[0]].Type
		return Val{T: types.Typ[types.Int], L: []string{bvLit(64, uint64(vc.w.tags.tag(tt)))}}
	case "govcRvmt", "govcRvfld", "govcRvobj", "govcRvcls", "govcRvttag", "govcRvwid", "govcRvecls", "govcRvewid":
		v := e.eval(x.Args[0])
		k := map[string]int{"govcRvmt": iMt, "govcRvfld": iFld, "govcRvobj": iObj, "govcRvcls": iCls, "govcRvttag": iTTag, "govcRvwid": iWid, "govcRvecls": iECls, "govcRvewid": iEWid}[name]
		return Val{T: types.Typ[types.Int], L: []string{v.L[k]}}
	case "govcRvvalid":
		v := e.eval(x.Args[0])
		return Val{T: types.Typ[types.Bool], L: []string{not(eq(v.L[iMt], bvLit(64, rvInvalid)))}}
	case "govcRvtime":
		// the time.Time held by the cell that v addresses (abstract reflect store)
		v := e.eval(x.Args[0])
		t := e.typeOf(x)
		var ls []string
		for _, n := range []string{"rvTsec", "rvTns", "rvTzoff", "rvTzid"} {
			ls = append(ls, vc.rvLoad(e.st, n, sBV64, v.L[iObj], cellKey(v)))
		}
		return Val{T: t, L: ls}
	case "govcRtypemsg":
		// the message number whose struct type the reflect.Type t is (-1: not the type of a whole message)
		v := e.eval(x.Args[0])
		if len(v.L) != 2 {
			e.fail(x, "rtypemsg of a non-interface value")
		}
		isMsg := and(eq(v.L[0], bvLit(64, uint64(vc.w.tags.tagNamed("extern:reflect.rtype")))), app("bvuge", v.L[1], bvLit(64, rtypeMsgBase)), app("bvult", v.L[1], bvLit(64, rtypeMsgBase+rvElemV)))
		return Val{T: types.Typ[types.Int], L: []string{ite(isMsg, app("bvsub", v.L[1], bvLit(64, rtypeMsgBase)), allOnes64)}}
	case "govcBinsize":
		// number of bytes binary.Write emits for the dynamic type of x (0: not a fixed-size scalar)
		v := e.eval(x.Args[0])
		if len(v.L) != 2 {
			e.fail(x, "binsize of a non-interface value")
		}
		return Val{T: types.Typ[types.Int], L: []string{vc.binSizeTerm(v.L[0])}}
	case "govcTagsize":
		v := e.eval(x.Args[0])
		return Val{T: types.Typ[types.Int], L: []string{vc.binSizeTerm(v.L[0])}}
	case "govcRvindirect":
		// reflect.Indirect(v) as the extern models it (a pointer to a message struct is followed)
		v := e.eval(x.Args[0])
		vc.ptrMsgAxioms()
		isPtr := and(eq(v.L[iMt], bvLit(64, rvPlain)), app("bvult", app("RVPtrMsg", v.L[iTTag]), bvLit(64, 0xFF00)))
		hn := ghostHeapName("plain!rvPtr")
		hs := arrSort(sBV64, sBV64)
		vc.ghostSorts[hn] = hs
		p := sel(vc.heapTerm(e.st, hn, hs), v.L[iObj])
		mt := app("RVPtrMsg", v.L[iTTag])
		el := []string{p, ite(eq(p, bvLit(64, 0)), bvLit(64, rvInvalid), mt), allOnes64, allOnes64, bvLit(64, clsStruct), bvLit(64, 0), bvLit(64, 0), bvLit(64, 0), app("RVTag", mt)}
		out := Val{T: v.T}
		for k := range v.L {
			out.L = append(out.L, ite(isPtr, el[k], v.L[k]))
		}
		return out
	case "govcRvmsgarg":
		// v is the zero Value, a Value viewing a whole message struct, or one wrapping a pointer to a message struct
		v := e.eval(x.Args[0])
		vc.ptrMsgAxioms()
		isPtr := and(eq(v.L[iMt], bvLit(64, rvPlain)), app("bvult", app("RVPtrMsg", v.L[iTTag]), bvLit(64, 0xFF00)))
		isMsg := and(app("bvult", v.L[iMt], bvLit(64, 0xFF00)), eq(v.L[iFld], allOnes64), eq(v.L[iIdx], allOnes64), eq(v.L[iCls], bvLit(64, clsStruct)), not(eq(v.L[iObj], bvLit(64, 0))))
		return Val{T: types.Typ[types.Bool], L: []string{or(eq(v.L[iMt], bvLit(64, rvInvalid)), isMsg, isPtr)}}
	case "govcRvstr":
		// the string held by the cell that v addresses
		v := e.eval(x.Args[0])
		return Val{T: types.Typ[types.String], L: []string{vc.rvLoad(e.st, "rvStrS", sBV64, v.L[iObj], cellKey(v)), vc.rvLoad(e.st, "rvStrO", sBV64, v.L[iObj], cellKey(v)), vc.rvLoad(e.st, "rvStrL", sBV64, v.L[iObj], cellKey(v))}}
	case "govcF32bits":
		v := e.eval(x.Args[0])
		return Val{T: types.Typ[types.Float32], L: []string{fmt.Sprintf("((_ to_fp 8 24) %s)", v.L[0])}}
	case "govcF64bits":
		v := e.eval(x.Args[0])
		return Val{T: types.Typ[types.Float64], L: []string{fmt.Sprintf("((_ to_fp 11 53) %s)", v.L[0])}}
	case "govcRvtimeat":
		// the time.Time held by cell c of the object that v views
		v := e.eval(x.Args[0])
		c := e.eval(x.Args[1])
		t := e.typeOf(x)
		var ls []string
		for _, n := range []string{"rvTsec", "rvTns", "rvTzoff", "rvTzid"} {
			ls = append(ls, vc.rvLoad(e.st, n, sBV64, v.L[iObj], c.L[0]))
		}
		return Val{T: t, L: ls}
	case "govcRvcell":
		v := e.eval(x.Args[0])
		return Val{T: types.Typ[types.Int], L: []string{cellKey(v)}}
	case "govcRvint":
		v := e.eval(x.Args[0])
		return Val{T: types.Typ[types.Int], L: []string{vc.rvLoad(e.st, "rvInt", sBV64, v.L[iObj], cellKey(v))}}
	case "govcRvlen":
		// the length reflect.Value.Len reports for the slice v holds
		v := e.eval(x.Args[0])
		hn := ghostHeapName("rvSliceLen")
		hs := arrSort(sBV64, sBV64)
		vc.ghostSorts[hn] = hs
		made := sel(vc.heapTerm(e.st, hn, hs), v.L[iObj])
		return Val{T: types.Typ[types.Int], L: []string{ite(eq(v.L[iMt], bvLit(64, rvSliceV)), made, vc.rvLoad(e.st, "rvLen", sBV64, v.L[iObj], cellKey(v)))}}
	case "govcRvisnil":
		v := e.eval(x.Args[0])
		return Val{T: types.Typ[types.Bool], L: []string{not(eq(vc.rvLoad(e.st, "rvNilF", sBV64, v.L[iObj], cellKey(v)), bvLit(64, 0)))}}
	case "govcRvflt":
		v := e.eval(x.Args[0])
		return Val{T: types.Typ[types.Float64], L: []string{vc.rvLoad(e.st, "rvFlt", sF64, v.L[iObj], cellKey(v))}}
	case "govcRvfieldof":
		// the Value of field i of the message struct that v views (as reflect.Value.Field)
		v := e.eval(x.Args[0])
		i := e.eval(x.Args[1])
		vc.declareRVFuncs()
		m, f := v.L[iMt], i.L[0]
		return Val{T: v.T, L: []string{v.L[iObj], m, f, allOnes64, app("RVClass", m, f), app("RVWidth", m, f), app("RVEClass", m, f), app("RVEWidth", m, f), app("RVTypeTag", m, f)}}
	case "govcRvismsg":
		// v views a whole, settable message struct of message number m
		v := e.eval(x.Args[0])
		m := e.eval(x.Args[1])
		return Val{T: types.Typ[types.Bool], L: []string{and(eq(v.L[iMt], m.L[0]), eq(v.L[iFld], allOnes64), eq(v.L[iIdx], allOnes64), eq(v.L[iCls], bvLit(64, clsStruct)), not(eq(v.L[iObj], bvLit(64, 0))))}}
	case "govcTsec", "govcTns", "govcTzoff", "govcTzid":
		v := e.eval(x.Args[0])
		k := map[string]int{"govcTsec": 0, "govcTns": 1, "govcTzoff": 2, "govcTzid": 3}[name]
		return Val{T: types.Typ[types.Int], L: []string{v.L[k]}}
	case "govcIsLE", "govcIsBE":
		v := e.eval(x.Args[0])
		n := "encoding/binary.littleEndian"
		if name == "govcIsBE" {
			n = "encoding/binary.bigEndian"
		}
		return Val{T: types.Typ[types.Bool], L: []string{eq(v.L[0], bvLit(64, uint64(vc.w.tags.tagNamed(n))))}}
	case "govcIsEOF":
		v := e.eval(x.Args[0])
		return Val{T: types.Typ[types.Bool], L: []string{vc.errIs(v, vc.externErrVar("io.EOF"))}}
	case "govcIsUEOF":
		v := e.eval(x.Args[0])
		return Val{T: types.Typ[types.Bool], L: []string{vc.errIs(v, vc.externErrVar("io.ErrUnexpectedEOF"))}}
	case "govcErrIs":
		v := e.eval(x.Args[0])
		id, ok := x.Args[1].(*ast.Ident)
		if !ok {
			e.fail(x, "iserr: second argument must name a package-level error variable")
		}
		gv, ok := info.Uses[id].(*types.Var)
		if !ok {
			e.fail(x, "iserr: not a variable")
		}
		g := vc.w.SSAPkgs[gv.Pkg().Path()].Var(gv.Name())
		if g == nil || !vc.w.immutableGlobal(g) {
			e.fail(x, "iserr: %s is not an immutable package-level variable", id.Name)
		}
		et := types.Universe.Lookup("error").Type()
		tgt := Val{T: et, L: []string{bvLit(64, uint64(vc.w.tags.tag(gv.Type()))), bvLit(64, uint64(vc.w.globalBoxId(g)))}}
		return Val{T: types.Typ[types.Bool], L: []string{vc.errIs(v, tgt)}}
	case "govcIsNaN":
		v := e.eval(x.Args[0])
		return Val{T: types.Typ[types.Bool], L: []string{app("fp.isNaN", v.L[0])}}
	case "govcIfaceOf":
		v := e.eval(x.Args[0])
		return vc.rvInterface(v)
	case "govcMsgOf":
		v := e.eval(x.Args[0])
		t := info.Types[typeArgs[0]].Type
		return vc.unbox(e.st, vc.rvInterface(v), t)
	case "govcTypeIs":
		v := e.eval(x.Args[0])
		tt := info.Types[typeArgs[0]].Type
		return Val{T: types.Typ[types.Bool], L: []string{eq(v.L[0], bvLit(64, uint64(vc.w.tags.tag(tt))))}}
	}
	fobj, _ := obj.(*types.Func)
	if fobj == nil {
		e.fail(x, "unsupported call in spec")
	}
	if g, ok := vc.w.Ghosts[fobj]; ok {
		var args []Val
		for _, a := range x.Args {
			args = append(args, e.eval(a))
		}
		r, err := vc.ghostCall(e.st, g, args, fobj.Type().(*types.Signature))
		if err != nil {
			e.fail(x, "%v", err)
		}
		return r
	}
	if sp, ok := vc.w.Specs[fobj]; ok {
		var args []Val
		for _, a := range x.Args {
			args = append(args, e.eval(a))
		}
		return e.callSpec(x, sp, args)
	}
	// a real (pure) repository function used in a spec: inline-evaluate it
	if fn := vc.w.Prog.FuncValue(fobj); fn != nil {
		var args []Val
		if selx, ok := fun.(*ast.SelectorExpr); ok {
			if s := info.Selections[selx]; s != nil && s.Kind() == types.MethodVal {
				args = append(args, e.eval(selx.X))
			}
		}
		for _, a := range x.Args {
			args = append(args, e.eval(a))
		}
		r, err := vc.pureCall(e.st, fn, args)
		if err != nil {
			e.fail(x, "%v", err)
		}
		return r
	}
	e.fail(x, "call to %s not supported in spec", name)
	panic("unreachable")
}

// callSpec expands a pred/spec function application.
func (e *SpecEnv) callSpec(n ast.Node, sp *SpecFn, args []Val) Val {
	vc := e.vc
	if e.depth > 40 {
		e.fail(n, "spec expansion too deep (recursive non-pure spec?)")
	}
	sig := sp.Obj.Type().(*types.Signature)
	if sp.Raw.Pure {
		return vc.callPureSpec(e, sp, args)
	}
	ne := &SpecEnv{vc: vc, pkg: sp.Pkg, vars: map[types.Object]Val{}, st: e.st, old: e.old, depth: e.depth + 1}
	k := 0
	for _, fl := range sp.Decl.Type.Params.List {
		for _, nm := range fl.Names {
			ne.vars[sp.Pkg.TypesInfo.Defs[nm]] = args[k]
			k++
		}
	}
	ne.oldVars = ne.vars
	_ = sig
	body := sp.Decl.Body.List[0].(*ast.ReturnStmt).Results[0]
	return ne.eval(body)
}

// ---------------------------------------------------------------------------
// pure spec functions -> define-fun / define-fun-rec

// callPureSpec applies a heap-independent spec function by name; slice-typed
// arguments are passed as (contents, off, len) snapshots.
func (vc *VC) callPureSpec(e *SpecEnv, sp *SpecFn, args []Val) Val {
	name := vc.ensurePureDef(sp)
	var flat []string
	for _, a := range args {
		flat = append(flat, vc.pureArg(e.st, a)...)
	}
	sig := sp.Obj.Type().(*types.Signature)
	rt := sig.Results().At(0).Type()
	if len(layoutOf(rt).Leaves) != 1 {
		panic(specErr{"pure spec function must return a scalar: " + sp.Raw.Name})
	}
	if len(flat) == 0 {
		return Val{T: rt, L: []string{name}}
	}
	return Val{T: rt, L: []string{app(name, flat...)}}
}

// pureArg flattens an argument for a pure spec function.
func (vc *VC) pureArg(st *State, a Val) []string {
	if slt, ok := a.T.Underlying().(*types.Slice); ok {
		lay := layoutOf(slt.Elem())
		var out []string
		for _, l := range lay.Leaves {
			h := vc.heapTerm(st, elemHeapName(elemKey(slt.Elem()), l.Path), arrSort(sBV64, arrSort(sBV64, l.Sort)))
			out = append(out, sel(h, a.L[0]))
		}
		return append(out, a.L[1], a.L[2])
	}
	return a.L
}

func pureParamSorts(t types.Type) []string {
	if slt, ok := t.Underlying().(*types.Slice); ok {
		var out []string
		for _, l := range layoutOf(slt.Elem()).Leaves {
			out = append(out, arrSort(sBV64, l.Sort))
		}
		return append(out, sBV64, sBV64)
	}
	var out []string
	for _, l := range layoutOf(t).Leaves {
		out = append(out, l.Sort)
	}
	return out
}

func (vc *VC) ensurePureDef(sp *SpecFn) string {
	name := smtName("spec!" + sp.Pkg.Types.Name() + "." + sp.Raw.Name)
	if vc.pureDone[sp] {
		return name
	}
	vc.pureDone[sp] = true
	// translate the body with parameters bound to formal symbols; slice
	// parameters become pseudo slices with literal array ids whose contents
	// are the snapshot formals
	pst := &State{heap: newHeap(), alloc: bvLit(64, 1), cond: "true"}
	ne := &SpecEnv{vc: vc, pkg: sp.Pkg, vars: map[types.Object]Val{}, st: pst}
	var formals []string
	nslice := 0
	for _, fl := range sp.Decl.Type.Params.List {
		for _, nm := range fl.Names {
			obj := sp.Pkg.TypesInfo.Defs[nm]
			t := obj.Type()
			sorts := pureParamSorts(t)
			var syms []string
			for k, s := range sorts {
				sym := smtName(fmt.Sprintf("%s!%d", nm.Name, k))
				syms = append(syms, sym)
				formals = append(formals, fmt.Sprintf("(%s %s)", sym, s))
			}
			if slt, ok := t.Underlying().(*types.Slice); ok {
				nslice++
				aid := bvLit(64, uint64(nslice))
				lay := layoutOf(slt.Elem())
				for li, l := range lay.Leaves {
					hn := elemHeapName(elemKey(slt.Elem()), l.Path)
					hs := arrSort(sBV64, arrSort(sBV64, l.Sort))
					prev, ok := pst.heap.m[hn]
					if !ok {
						prev = zeroOfSort(hs)
					}
					pst.heap.m[hn] = sto(prev, aid, syms[li])
				}
				nl := len(lay.Leaves)
				ne.vars[obj] = Val{T: t, L: []string{aid, syms[nl], syms[nl+1], syms[nl+1]}}
			} else {
				ne.vars[obj] = Val{T: t, L: syms}
			}
		}
	}
	ne.oldVars = ne.vars
	sig := sp.Obj.Type().(*types.Signature)
	rt := sig.Results().At(0).Type()
	rsort := layoutOf(rt).Leaves[0].Sort
	// declare first (so recursive references resolve), translate, then define
	saved := vc.script
	vc.script = nil
	savedLog := vc.readLog
	vc.readLog = map[string]bool{}
	savedInline := vc.inlineMode
	vc.inlineMode = true
	var body Val
	var inner []string
	func() {
		defer func() {
			inner = vc.script
			vc.script = saved
			vc.inlineMode = savedInline
			vc.pureReads = nil
			for r := range vc.readLog {
				vc.pureReads = append(vc.pureReads, r)
			}
			vc.readLog = savedLog
		}()
		body = ne.eval(sp.Decl.Body.List[0].(*ast.ReturnStmt).Results[0])
	}()
	if len(inner) > 0 {
		panic(specErr{"pure spec function " + sp.Raw.Name + " needs side definitions (not pure)"})
	}
	mut := vc.w.mutatedTypes()
	for hn := range pst.heap.m {
		_ = hn
	}
	for _, hn := range vc.pureReads {
		if strings.HasPrefix(hn, "H!") {
			tk := strings.SplitN(strings.TrimPrefix(hn, "H!"), "!", 2)[0]
			if why, bad := mut[tk]; bad {
				panic(specErr{"pure spec function " + sp.Raw.Name + " reads heap " + hn + " of a type mutated in " + why})
			}
		} else if !strings.HasPrefix(hn, "A!") || true {
			if strings.HasPrefix(hn, "A!") || strings.HasPrefix(hn, "G!") || strings.HasPrefix(hn, "Z!") || strings.HasPrefix(hn, "M!") {
				if _, isFormal := pst.heap.m[hn]; !isFormal {
					panic(specErr{"pure spec function " + sp.Raw.Name + " reads mutable state " + hn})
				}
			}
		}
	}
	var sorts []string
	var names []string
	for _, f := range formals {
		i := strings.Index(f, " ")
		names = append(names, f[1:i])
		sorts = append(sorts, f[i+1:len(f)-1])
	}
	switch {
	case sp.Raw.Opaque && !vc.revealed[sp.Raw.Name]:
		// uninterpreted in this VC
		if len(formals) == 0 {
			vc.prelude = append(vc.prelude, fmt.Sprintf("(declare-const %s %s)", name, rsort))
		} else {
			vc.prelude = append(vc.prelude, fmt.Sprintf("(declare-fun %s (%s) %s)", name, strings.Join(sorts, " "), rsort))
		}
	case len(formals) == 0:
		vc.prelude = append(vc.prelude, fmt.Sprintf("(define-fun %s () %s %s)", name, rsort, body.L[0]))
	case sp.Raw.Rec:
		// recursive definition as an axiom triggered on applications (one unfolding per term)
		vc.prelude = append(vc.prelude, fmt.Sprintf("(declare-fun %s (%s) %s)", name, strings.Join(sorts, " "), rsort))
		vc.prelude = append(vc.prelude, fmt.Sprintf("(assert (forall (%s) (! (= (%s %s) %s) :pattern ((%s %s)))))",
			strings.Join(formals, " "), name, strings.Join(names, " "), body.L[0], name, strings.Join(names, " ")))
	default:
		vc.prelude = append(vc.prelude, fmt.Sprintf("(define-fun %s (%s) %s %s)", name, strings.Join(formals, " "), rsort, body.L[0]))
	}
	return name
}

// ---------------------------------------------------------------------------

// binop implements Go binary operators on values of basic types.
func (vc *VC) binop(op token.Token, a, b Val, rt types.Type) (Val, error) {
	boolT := types.Typ[types.Bool]
	switch op {
	case token.EQL:
		return Val{T: boolT, L: []string{vc.valEq(a, b)}}, nil
	case token.NEQ:
		return Val{T: boolT, L: []string{not(vc.valEq(a, b))}}, nil
	}
	if isFloat(a.T) {
		x, y := a.L[0], b.L[0]
		switch op {
		case token.ADD:
			return Val{T: rt, L: []string{app("fp.add", "RNE", x, y)}}, nil
		case token.SUB:
			return Val{T: rt, L: []string{app("fp.sub", "RNE", x, y)}}, nil
		case token.MUL:
			return Val{T: rt, L: []string{app("fp.mul", "RNE", x, y)}}, nil
		case token.QUO:
			return Val{T: rt, L: []string{app("fp.div", "RNE", x, y)}}, nil
		case token.LSS:
			return Val{T: boolT, L: []string{app("fp.lt", x, y)}}, nil
		case token.LEQ:
			return Val{T: boolT, L: []string{app("fp.leq", x, y)}}, nil
		case token.GTR:
			return Val{T: boolT, L: []string{app("fp.gt", x, y)}}, nil
		case token.GEQ:
			return Val{T: boolT, L: []string{app("fp.geq", x, y)}}, nil
		}
		return Val{}, fmt.Errorf("unsupported float operator %s", op)
	}
	if isBool(a.T) {
		switch op {
		case token.AND, token.LAND:
			return Val{T: boolT, L: []string{and(a.L[0], b.L[0])}}, nil
		case token.OR, token.LOR:
			return Val{T: boolT, L: []string{or(a.L[0], b.L[0])}}, nil
		}
	}
	if isString(a.T) {
		if op == token.ADD {
			return vc.strConcat(a, b), nil
		}
		return Val{}, fmt.Errorf("unsupported string operator %s", op)
	}
	if !isInteger(a.T) {
		return Val{}, fmt.Errorf("unsupported operand type %s for %s", a.T, op)
	}
	w := widthOf(a.T)
	signed := isSigned(a.T)
	x, y := a.L[0], b.L[0]
	switch op {
	case token.SHL, token.SHR:
		// shift count may have a different width/type
		wb := widthOf(b.T)
		var cnt string
		big := "false"
		if wb > w {
			// compare in wb bits
			big = app("bvuge", y, bvLit(wb, uint64(w)))
			cnt = fmt.Sprintf("((_ extract %d 0) %s)", w-1, y)
		} else {
			cnt = bvExtend(y, wb, w, false)
			big = app("bvuge", cnt, bvLit(w, uint64(w)))
		}
		if isSigned(b.T) {
			// negative shift count panics; callers add an obligation. treat as large.
		}
		if op == token.SHL {
			return Val{T: rt, L: []string{ite(big, bvLit(w, 0), app("bvshl", x, cnt))}}, nil
		}
		if signed {
			return Val{T: rt, L: []string{ite(big, app("bvashr", x, bvLit(w, uint64(w-1))), app("bvashr", x, cnt))}}, nil
		}
		return Val{T: rt, L: []string{ite(big, bvLit(w, 0), app("bvlshr", x, cnt))}}, nil
	}
	bin := func(o string) (Val, error) {
		if o == "bvadd" || o == "bvsub" {
			return Val{T: rt, L: []string{vc.linNorm(app(o, x, y), w)}}, nil
		}
		return Val{T: rt, L: []string{app(o, x, y)}}, nil
	}
	cmp := func(s, u string) (Val, error) {
		if signed {
			return Val{T: boolT, L: []string{app(s, x, y)}}, nil
		}
		return Val{T: boolT, L: []string{app(u, x, y)}}, nil
	}
	switch op {
	case token.ADD:
		return bin("bvadd")
	case token.SUB:
		return bin("bvsub")
	case token.MUL:
		return bin("bvmul")
	case token.QUO:
		if signed {
			return bin("bvsdiv")
		}
		return bin("bvudiv")
	case token.REM:
		if signed {
			return bin("bvsrem")
		}
		return bin("bvurem")
	case token.AND:
		return bin("bvand")
	case token.OR:
		return bin("bvor")
	case token.XOR:
		return bin("bvxor")
	case token.AND_NOT:
		return Val{T: rt, L: []string{app("bvand", x, app("bvnot", y))}}, nil
	case token.LSS:
		return cmp("bvslt", "bvult")
	case token.LEQ:
		return cmp("bvsle", "bvule")
	case token.GTR:
		return cmp("bvsgt", "bvugt")
	case token.GEQ:
		return cmp("bvsge", "bvuge")
	}
	return Val{}, fmt.Errorf("unsupported operator %s", op)
}

// valEq is structural equality of two values of the same type.
func (vc *VC) valEq(a, b Val) string {
	t := a.T
	if _, isNil := t.(*types.Basic); isNil && t.(*types.Basic).Kind() == types.UntypedNil {
		t = b.T
		a = vc.zeroVal(t)
	}
	if bt, ok := b.T.(*types.Basic); ok && bt.Kind() == types.UntypedNil {
		b = vc.zeroVal(t)
	}
	if isString(t) {
		return vc.strEq(a, b)
	}
	if isFloat(t) {
		return app("fp.eq", a.L[0], b.L[0])
	}
	if _, ok := t.Underlying().(*types.Slice); ok {
		// only comparison with nil is legal
		return eq(a.L[0], b.L[0])
	}
	if _, ok := t.Underlying().(*types.Interface); ok {
		if b.L[0] == bvLit(64, 0) {
			return eq(a.L[0], bvLit(64, 0))
		}
		if a.L[0] == bvLit(64, 0) {
			return eq(b.L[0], bvLit(64, 0))
		}
		return vc.ifaceEq(a, b)
	}
	if len(a.L) != len(b.L) {
		panic(specErr{fmt.Sprintf("valEq: shape mismatch %s vs %s", a.T, b.T)})
	}
	var cs []string
	lay := layoutOf(t)
	for k := range a.L {
		l := lay.Leaves[k]
		switch {
		case l.Sort == sF32 || l.Sort == sF64:
			cs = append(cs, app("fp.eq", a.L[k], b.L[k]))
		default:
			cs = append(cs, eq(a.L[k], b.L[k]))
		}
	}
	return and(cs...)
}

// convert implements Go conversions between basic types (and named variants).
func (vc *VC) convert(v Val, to types.Type) (Val, error) {
	from := v.T
	switch {
	case isInteger(from) && isInteger(to):
		return Val{T: to, L: []string{bvExtend(v.L[0], widthOf(from), widthOf(to), isSigned(from))}}, nil
	case isInteger(from) && isFloat(to):
		fs := "11 53"
		if layoutOf(to).Leaves[0].Sort == sF32 {
			fs = "8 24"
		}
		if isSigned(from) {
			return Val{T: to, L: []string{fmt.Sprintf("((_ to_fp %s) RNE %s)", fs, v.L[0])}}, nil
		}
		return Val{T: to, L: []string{fmt.Sprintf("((_ to_fp_unsigned %s) RNE %s)", fs, v.L[0])}}, nil
	case isFloat(from) && isInteger(to):
		vc.trusted["float-to-integer conversion is SMT-LIB fp.to_sbv/fp.to_ubv with RTZ: Go's truncation for values in range; for NaN and out-of-range values the result is unspecified in the model (implementation-defined in Go)"] = true
		w := widthOf(to)
		if isSigned(to) {
			return Val{T: to, L: []string{fmt.Sprintf("((_ fp.to_sbv %d) RTZ %s)", w, v.L[0])}}, nil
		}
		return Val{T: to, L: []string{fmt.Sprintf("((_ fp.to_ubv %d) RTZ %s)", w, v.L[0])}}, nil
	case isFloat(from) && isFloat(to):
		fs := "11 53"
		if layoutOf(to).Leaves[0].Sort == sF32 {
			fs = "8 24"
		}
		if layoutOf(from).Leaves[0].Sort == layoutOf(to).Leaves[0].Sort {
			return Val{T: to, L: v.L}, nil
		}
		return Val{T: to, L: []string{fmt.Sprintf("((_ to_fp %s) RNE %s)", fs, v.L[0])}}, nil
	case isString(to) && isString(from):
		return Val{T: to, L: v.L}, nil
	}
	if types.Identical(from.Underlying(), to.Underlying()) {
		return Val{T: to, L: v.L}, nil
	}
	if _, ok := from.(*types.Basic); ok && from.(*types.Basic).Kind() == types.UntypedNil {
		return vc.zeroVal(to), nil
	}
	if slt, ok := from.Underlying().(*types.Slice); ok && isString(to) {
		if b, ok := slt.Elem().Underlying().(*types.Basic); ok && b.Kind() == types.Uint8 {
			return vc.bytesToString(nil, v, to), nil
		}
	}
	return Val{}, fmt.Errorf("unsupported conversion %s -> %s", from, to)
}

var _ = constant.MakeBool

// selectPattern picks an E-matching trigger for a bounded quantifier: the first
// (select A I) sub-term whose index mentions the bound variable and whose array
// does not.
// selectPatternInner prefers a select whose index is the bound variable itself or OFF+bv (which the caller
// re-indexes to a bare variable): a trigger on the slice element rather than on a field of the element.
func selectPatternInner(body, bv string) string {
	rest := body
	for {
		i := strings.Index(rest, "(select ")
		if i < 0 {
			return selectPattern(body, bv)
		}
		t := selectPattern(rest[i:], bv)
		if t == "" {
			return selectPattern(body, bv)
		}
		if _, idx, ok := splitSelect(t); ok && (idx == bv || strings.HasPrefix(idx, "(bvadd ") && strings.HasSuffix(idx, " "+bv+")") && !containsSym(idx[len("(bvadd "):len(idx)-len(" "+bv+")")], bv)) {
			return t
		}
		// look inside this term (its index may hold the simpler select)
		j := strings.Index(rest[i:], t)
		rest = rest[i+j+len("(select "):]
	}
}

func selectPattern(body, bv string) string {
	for i := 0; i+8 <= len(body); i++ {
		if !strings.HasPrefix(body[i:], "(select ") {
			continue
		}
		// find the extent of this term
		depth := 0
		j := i
		for ; j < len(body); j++ {
			if body[j] == '(' {
				depth++
			} else if body[j] == ')' {
				depth--
				if depth == 0 {
					break
				}
			}
		}
		if j >= len(body) {
			return ""
		}
		term := body[i : j+1]
		// split "(select ARR IDX)"
		inner := term[len("(select ") : len(term)-1]
		k := 0
		d := 0
		for ; k < len(inner); k++ {
			if inner[k] == '(' {
				d++
			} else if inner[k] == ')' {
				d--
			} else if inner[k] == ' ' && d == 0 {
				break
			}
		}
		if k >= len(inner) {
			continue
		}
		arr, idx := inner[:k], inner[k+1:]
		if containsSym(idx, bv) && !containsSym(arr, bv) {
			return term
		}
	}
	return ""
}

func containsSym(text, sym string) bool {
	for _, s := range smtSymbols(text) {
		if s == sym {
			return true
		}
	}
	return false
}

func splitSelect(term string) (arr, idx string, ok bool) {
	if !strings.HasPrefix(term, "(select ") {
		return "", "", false
	}
	inner := term[len("(select ") : len(term)-1]
	d := 0
	for k := 0; k < len(inner); k++ {
		switch inner[k] {
		case '(':
			d++
		case ')':
			d--
		case ' ':
			if d == 0 {
				return inner[:k], inner[k+1:], true
			}
		}
	}
	return "", "", false
}

// replaceSym replaces whole-symbol occurrences of sym in an SMT text.
func replaceSym(text, sym, with string) string {
	var b strings.Builder
	i := 0
	for i < len(text) {
		j := strings.Index(text[i:], sym)
		if j < 0 {
			b.WriteString(text[i:])
			break
		}
		j += i
		end := j + len(sym)
		before := j == 0 || strings.ContainsRune(" ()", rune(text[j-1]))
		after := end >= len(text) || strings.ContainsRune(" ()", rune(text[end]))
		b.WriteString(text[i:j])
		if before && after {
			b.WriteString(with)
		} else {
			b.WriteString(sym)
		}
		i = end
	}
	return b.String()
}

// rangeForms gives the solver the equivalent forms of a range guard at every
// instance of a quantifier over array index q (pattern (select arr q)). Each
// added formula is a tautology of 64-bit arithmetic (checked once by the
// self-test, see selftest/range_forms.smt2), so it can be assumed anywhere:
//
//	relative index k = q - off (off == "" means k = q), guard lo <=s k <s hi
//	(1) lo <=s hi                     ==> (guard <=> (k-lo) <u (hi-lo))
//	(2) 0<=off<2^40, |lo|,|hi|<2^40   ==> (guard <=> off+lo <=s q <s off+hi)
//
// Comparisons of sums are hard for bit-blasting; with the forms side by side
// most range reasoning becomes propositional.
func (vc *VC) rangeForms(q, arr, off, lo, hi string) {
	if vc.noRangeForms || reBoundVar.MatchString(arr+" "+off+" "+lo+" "+hi) {
		return // not closed: the range mentions an enclosing bound variable
	}
	key := arr + "|" + off + "|" + lo + "|" + hi
	if vc.rangeDone == nil {
		vc.rangeDone = map[string]bool{}
	}
	if vc.rangeDone[key] {
		return
	}
	vc.rangeDone[key] = true
	qq := vc.fresh("q_rf")
	k := qq
	if off != "" {
		k = vc.linNorm(app("bvsub", qq, off), 64)
	}
	guard := and(app("bvsle", lo, k), app("bvslt", k, hi))
	var forms []string
	ud := app("bvult", vc.linNorm(app("bvsub", k, lo), 64), vc.linNorm(app("bvsub", hi, lo), 64))
	forms = append(forms, imp(app("bvsle", lo, hi), eq(guard, ud)))
	if off != "" {
		small := func(t string) string {
			return and(app("bvslt", bvLit(64, (1<<64)-(1<<40)), t), app("bvslt", t, bvLit(64, 1<<40)))
		}
		direct := and(app("bvsle", vc.linNorm(app("bvadd", off, lo), 64), qq), app("bvslt", qq, vc.linNorm(app("bvadd", off, hi), 64)))
		forms = append(forms, imp(and(app("bvsle", bvLit(64, 0), off), app("bvslt", off, bvLit(64, 1<<40)), small(lo), small(hi)), eq(guard, direct)))
	}
	vc.script = append(vc.script, fmt.Sprintf("(assert (forall ((%s %s)) (! %s :pattern ((select %s %s)))))", qq, sBV64, and(forms...), arr, qq))
}

var reBoundVar = regexp.MustCompile(`q_[A-Za-z0-9_]*!\d+`)

// rangeEquiv: for a copied range [off, off+n): (0<=off<2^40 and 0<=n<2^40) ==>
// (off <=s q <s off+n  <=>  (q-off) <u n). A tautology of 64-bit arithmetic.
func rangeEquiv(q, off, n string) string {
	bounds := and(app("bvsle", bvLit(64, 0), off), app("bvslt", off, bvLit(64, 1<<40)), app("bvsle", bvLit(64, 0), n), app("bvslt", n, bvLit(64, 1<<40)))
	direct := and(app("bvsle", off, q), app("bvslt", q, app("bvadd", off, n)))
	return imp(bounds, eq(direct, app("bvult", app("bvsub", q, off), n)))
}

// ptrMsgAxioms declares RVPtrMsg (message number of a pointer-to-message type
// tag) with its ground facts from msgsTypes, once per VC.
func (vc *VC) ptrMsgAxioms() {
	vc.declareRVFuncs()
	if vc.declared["RVPtrMsg"] {
		return
	}
	vc.declareFun("RVPtrMsg", []string{sBV64}, sBV64)
	for _, k := range vc.w.profileMsgNums() {
		mi := vc.w.profile().Msgs[k]
		vc.prelude = append(vc.prelude, fmt.Sprintf("(assert (= (RVPtrMsg %s) %s))", bvLit(64, uint64(vc.w.tags.tag(types.NewPointer(mi.Named)))), bvLit(64, uint64(k))))
		vc.prelude = append(vc.prelude, fmt.Sprintf("(assert (= (RVTag %s) %s))", bvLit(64, uint64(k)), bvLit(64, uint64(vc.w.tags.tag(mi.Named)))))
	}
}
