package main

// The size clause of types.Base.Invalid (verified against the body since round 8; these closed obligations remain as a second, independent reading of the table) (the invalid value of a base
// type is as wide as the base type) is backed by a closed check over the two
// tables it is read from: goinvalid[i] is written with a type of bsize[i]
// bytes, for every base type but string.

import (
	"fmt"
	"go/ast"
	"go/constant"
	"go/types"
)

func (w *World) invalidTableChecks() []groundCheck {
	pkg := w.PkgByPath[modPath+"/internal/types"]
	if pkg == nil {
		return []groundCheck{{name: "invalid-table.present", why: "package internal/types not loaded"}}
	}
	lit := func(name string) *ast.CompositeLit {
		for _, f := range pkg.Syntax {
			for _, d := range f.Decls {
				gd, ok := d.(*ast.GenDecl)
				if !ok {
					continue
				}
				for _, sp := range gd.Specs {
					vs, ok := sp.(*ast.ValueSpec)
					if !ok || len(vs.Names) != 1 || vs.Names[0].Name != name || len(vs.Values) != 1 {
						continue
					}
					if cl, ok := vs.Values[0].(*ast.CompositeLit); ok {
						return cl
					}
				}
			}
		}
		return nil
	}
	inv, bs := lit("goinvalid"), lit("bsize")
	if inv == nil || bs == nil || len(inv.Elts) != len(bs.Elts) {
		return []groundCheck{{name: "invalid-table.present", why: "tables goinvalid and bsize are not composite literals of the same length"}}
	}
	out := []groundCheck{{name: "invalid-table.present", ok: true}}
	for i := range inv.Elts {
		gc := groundCheck{name: fmt.Sprintf("invalid-table.size.%d", i), pos: w.Fset.Position(inv.Elts[i].Pos()).String()}
		t := pkg.TypesInfo.TypeOf(inv.Elts[i])
		want := int64(-1)
		if tv, ok := pkg.TypesInfo.Types[bs.Elts[i]]; ok && tv.Value != nil {
			want, _ = constant.Int64Val(tv.Value)
		}
		got := int64(0)
		isString := false
		if b, ok := t.Underlying().(*types.Basic); ok {
			switch b.Kind() {
			case types.Int8, types.Uint8:
				got = 1
			case types.Int16, types.Uint16:
				got = 2
			case types.Int32, types.Uint32, types.Float32:
				got = 4
			case types.Int64, types.Uint64, types.Float64:
				got = 8
			case types.String:
				isString = true
			}
		}
		gc.ok = isString || got == want
		if !gc.ok {
			gc.why = fmt.Sprintf("goinvalid[%d] has type %s (%d bytes); bsize[%d] is %d", i, t, got, i, want)
		}
		out = append(out, gc)
	}
	return out
}
