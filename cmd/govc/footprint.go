package main

// Footprint (frame) obligations for the purity / concurrency properties C08
// and C09: over the call graph reachable from the public decoding and encoding
// entry points, no function writes a package-level variable, reads one that is
// written anywhere outside init, or hands one to code outside the verified
// packages; and every iteration over a map is order-insensitive.
// The obligations are decided on the SSA form (a frame rule, not an
// exploration of histories or schedules).

import (
	"fmt"
	"go/token"
	"go/types"
	"sort"
	"strings"

	"golang.org/x/tools/go/ssa"
)

var footprintEntries = []string{
	"Decode", "DecodeChained", "CheckIntegrity", "DecodeHeader", "DecodeHeaderAndFileID", "Encode", "NewFile", "NewHeader",
}

var footprintEntryMethods = [][2]string{
	{"Header", "CheckIntegrity"}, {"Header", "MarshalBinary"},
}

// externals with observable global state: calls to these are violations
var statefulExternals = []string{"time.Now", "math/rand.", "os.Getenv", "os.Setenv", "(*sync.Pool).", "sync/atomic.", "runtime.", "(*sync.Mutex).", "(*sync.Once)."}

type footprintResult struct {
	reachable []*ssa.Function
	checks    []groundCheck
	externals map[string]bool
}

func (w *World) reachableFromEntries() []*ssa.Function {
	sp := w.SSAPkgs[modPath]
	var work []*ssa.Function
	seen := map[*ssa.Function]bool{}
	push := func(f *ssa.Function) {
		if f == nil || seen[f] || !inVerifiedPkgs(f) {
			return
		}
		seen[f] = true
		work = append(work, f)
	}
	for _, n := range footprintEntries {
		push(sp.Func(n))
	}
	for _, tm := range footprintEntryMethods {
		if tobj := sp.Pkg.Scope().Lookup(tm[0]); tobj != nil {
			for _, T := range []types.Type{tobj.Type(), types.NewPointer(tobj.Type())} {
				if sel := w.Prog.MethodSets.MethodSet(T).Lookup(sp.Pkg, tm[1]); sel != nil {
					push(w.Prog.MethodValue(sel))
				}
			}
		}
	}
	// functions used as values (tables of constructors, options)
	var valueFuncs []*ssa.Function
	for fn := range w.AllFuncs {
		if !inVerifiedPkgs(fn) {
			continue
		}
		for _, b := range fn.Blocks {
			for _, instr := range b.Instrs {
				for _, op := range instr.Operands(nil) {
					if *op == nil {
						continue
					}
					switch v := (*op).(type) {
					case *ssa.Function:
						if c, ok := instr.(ssa.CallInstruction); ok && c.Common().Value == ssa.Value(v) {
							continue
						}
						valueFuncs = append(valueFuncs, v)
					case *ssa.MakeClosure:
						valueFuncs = append(valueFuncs, v.Fn.(*ssa.Function))
					}
				}
				if mc, ok := instr.(*ssa.MakeClosure); ok {
					valueFuncs = append(valueFuncs, mc.Fn.(*ssa.Function))
				}
			}
		}
	}
	// named types of the verified packages (for interface dispatch)
	var namedTypes []types.Type
	for _, p := range w.Pkgs {
		sc := p.Types.Scope()
		for _, n := range sc.Names() {
			if tn, ok := sc.Lookup(n).(*types.TypeName); ok {
				namedTypes = append(namedTypes, tn.Type(), types.NewPointer(tn.Type()))
			}
		}
	}
	for len(work) > 0 {
		fn := work[len(work)-1]
		work = work[:len(work)-1]
		for _, af := range fn.AnonFuncs {
			push(af)
		}
		for _, b := range fn.Blocks {
			for _, instr := range b.Instrs {
				call, ok := instr.(ssa.CallInstruction)
				if !ok {
					continue
				}
				cc := call.Common()
				if cc.IsInvoke() {
					it, _ := cc.Value.Type().Underlying().(*types.Interface)
					for _, T := range namedTypes {
						if it != nil && types.Implements(T, it) {
							if sel := w.Prog.MethodSets.MethodSet(T).Lookup(cc.Method.Pkg(), cc.Method.Name()); sel != nil {
								push(w.Prog.MethodValue(sel))
							}
						}
					}
					continue
				}
				switch v := cc.Value.(type) {
				case *ssa.Function:
					push(v)
				case *ssa.MakeClosure:
					push(v.Fn.(*ssa.Function))
				case *ssa.Builtin:
				default:
					// dynamic call: any function used as a value with this signature
					for _, vf := range valueFuncs {
						if types.Identical(vf.Signature, cc.Signature()) || types.Identical(vf.Type(), cc.Value.Type().Underlying()) {
							push(vf)
						}
					}
				}
			}
		}
	}
	var out []*ssa.Function
	for f := range seen {
		out = append(out, f)
	}
	sort.Slice(out, func(i, j int) bool { return out[i].String() < out[j].String() })
	return out
}

// rootGlobal follows an address chain to a package-level variable.
func rootGlobal(v ssa.Value) *ssa.Global {
	for i := 0; i < 32; i++ {
		switch x := v.(type) {
		case *ssa.Global:
			return x
		case *ssa.FieldAddr:
			v = x.X
		case *ssa.IndexAddr:
			v = x.X
		case *ssa.Slice:
			v = x.X
		default:
			return nil
		}
	}
	return nil
}

func (w *World) footprintChecks() *footprintResult {
	res := &footprintResult{externals: map[string]bool{}}
	res.reachable = w.reachableFromEntries()
	type finding struct {
		fn  *ssa.Function
		pos token.Pos
		msg string
	}
	writes := map[string][]finding{}
	mutReads := map[string][]finding{}
	escapes := map[string][]finding{}
	stateful := map[string][]finding{}
	var mapRanges []finding
	for _, fn := range res.reachable {
		if fn.Name() == "init" {
			continue
		}
		for _, b := range fn.Blocks {
			for _, instr := range b.Instrs {
				switch x := instr.(type) {
				case *ssa.Store:
					if g := rootGlobal(x.Addr); g != nil && g.Pkg != nil && isVerifiedPkgPath(g.Pkg.Pkg.Path()) {
						writes[globalName(g)] = append(writes[globalName(g)], finding{fn, x.Pos(), "store"})
					}
				case *ssa.MapUpdate:
					if u, ok := x.Map.(*ssa.UnOp); ok {
						if g := rootGlobal(u.X); g != nil && g.Pkg != nil && isVerifiedPkgPath(g.Pkg.Pkg.Path()) {
							writes[globalName(g)] = append(writes[globalName(g)], finding{fn, x.Pos(), "map update"})
						}
					}
				case *ssa.UnOp:
					if x.Op == token.MUL {
						if g := rootGlobal(x.X); g != nil && g.Pkg != nil && isVerifiedPkgPath(g.Pkg.Pkg.Path()) {
							if !w.immutableGlobal(g) {
								mutReads[globalName(g)] = append(mutReads[globalName(g)], finding{fn, x.Pos(), "read"})
							}
						}
					}
				case *ssa.Slice:
					// a slice of a package-level array aliases shared storage: whoever holds it (an append, a
					// struct field, a callee) writes the variable without naming it
					if g := rootGlobal(x.X); g != nil && g.Pkg != nil && isVerifiedPkgPath(g.Pkg.Pkg.Path()) {
						if _, isPtr := x.X.Type().Underlying().(*types.Pointer); isPtr {
							escapes[globalName(g)] = append(escapes[globalName(g)], finding{fn, x.Pos(), "slice taken of the variable's storage"})
						}
					}
				case *ssa.Range:
					if _, ok := x.X.Type().Underlying().(*types.Map); ok {
						mapRanges = append(mapRanges, finding{fn, x.Pos(), ""})
					}
				case ssa.CallInstruction:
					cc := x.Common()
					name := ""
					if f, ok := cc.Value.(*ssa.Function); ok {
						name = f.String()
						if !inVerifiedPkgs(f) {
							res.externals[name] = true
							for _, s := range statefulExternals {
								if strings.HasPrefix(name, s) || strings.Contains(name, s) {
									stateful[name] = append(stateful[name], finding{fn, x.Pos(), "call"})
								}
							}
							// a package-level variable handed to external code
							for _, a := range cc.Args {
								if g := rootGlobal(a); g != nil && g.Pkg != nil && isVerifiedPkgPath(g.Pkg.Pkg.Path()) {
									escapes[globalName(g)] = append(escapes[globalName(g)], finding{fn, x.Pos(), "passed to " + name})
								}
							}
						}
					}
				}
			}
		}
	}
	pos := func(f finding) string { return w.Fset.Position(f.pos).String() }
	// one obligation per package-level variable of the verified packages
	var globals []*ssa.Global
	for _, spk := range w.SSAPkgs {
		for _, m := range spk.Members {
			if g, ok := m.(*ssa.Global); ok && !strings.HasPrefix(g.Name(), "init$") {
				globals = append(globals, g)
			}
		}
	}
	sort.Slice(globals, func(i, j int) bool { return globalName(globals[i]) < globalName(globals[j]) })
	for _, g := range globals {
		n := globalName(g)
		gc := groundCheck{name: "frame." + n, ok: true}
		var why []string
		for _, f := range writes[n] {
			why = append(why, fmt.Sprintf("%s in %s (%s)", f.msg, shortFn(f.fn), pos(f)))
		}
		for _, f := range mutReads[n] {
			why = append(why, fmt.Sprintf("read of a variable written outside init, in %s (%s)", shortFn(f.fn), pos(f)))
		}
		for _, f := range escapes[n] {
			why = append(why, fmt.Sprintf("%s in %s (%s)", f.msg, shortFn(f.fn), pos(f)))
		}
		if len(why) > 0 {
			gc.ok = false
			if len(why) > 6 {
				why = append(why[:6], fmt.Sprintf("... %d more", len(why)-6))
			}
			gc.why = "package-level variable " + n + " is in the footprint of the decode/encode paths: " + strings.Join(why, "; ")
			if len(writes[n]) > 0 {
				gc.pos = pos(writes[n][0])
			}
		}
		res.checks = append(res.checks, gc)
		// and one obligation per function that touches the variable, so that a known finding about one accessor
		// (the generated expandComponents) does not hide another function that starts to write or read it
		if !gc.ok {
			byFn := map[string][]string{}
			fpos := map[string]string{}
			add := func(fs []finding, what func(finding) string) {
				for _, f := range fs {
					k := shortFn(f.fn)
					byFn[k] = append(byFn[k], fmt.Sprintf("%s (%s)", what(f), pos(f)))
					if fpos[k] == "" {
						fpos[k] = pos(f)
					}
				}
			}
			add(writes[n], func(f finding) string { return f.msg })
			add(mutReads[n], func(f finding) string { return "read of a variable written outside init" })
			add(escapes[n], func(f finding) string { return f.msg })
			var fns []string
			for k := range byFn {
				fns = append(fns, k)
			}
			sort.Strings(fns)
			for _, k := range fns {
				ws := byFn[k]
				if len(ws) > 4 {
					ws = append(ws[:4], fmt.Sprintf("... %d more", len(ws)-4))
				}
				res.checks = append(res.checks, groundCheck{name: "frame." + n + "@" + k, ok: false, pos: fpos[k],
					why: "package-level variable " + n + " is in the footprint of the decode/encode paths through " + k + ": " + strings.Join(ws, "; ")})
			}
		}
	}
	// the element types of the immutable profile tables are never written outside init: a store through a
	// pointer taken from a table is a write to shared state even though no package-level variable is named
	tableTypes := map[string]string{}
	var walk func(t types.Type, from string, depth int)
	walk = func(t types.Type, from string, depth int) {
		if depth > 6 {
			return
		}
		switch u := t.(type) {
		case *types.Named:
			if st, ok := u.Underlying().(*types.Struct); ok && u.Obj().Pkg() != nil && isVerifiedPkgPath(u.Obj().Pkg().Path()) {
				k := structKey(u)
				if _, seen := tableTypes[k]; seen {
					return
				}
				tableTypes[k] = from
				for i := 0; i < st.NumFields(); i++ {
					walk(st.Field(i).Type(), from, depth+1)
				}
			}
		case *types.Pointer:
			walk(u.Elem(), from, depth+1)
		case *types.Slice:
			walk(u.Elem(), from, depth+1)
		case *types.Array:
			walk(u.Elem(), from, depth+1)
		case *types.Map:
			walk(u.Elem(), from, depth+1)
		}
	}
	for _, g := range globals {
		if w.immutableGlobal(g) {
			walk(g.Type().(*types.Pointer).Elem(), globalName(g), 0)
		}
	}
	mut := w.mutatedTypes()
	var tks []string
	for k := range tableTypes {
		tks = append(tks, k)
	}
	sort.Strings(tks)
	for _, k := range tks {
		gc := groundCheck{name: "frame.table-type." + k, ok: true}
		if why, bad := mut[k]; bad {
			gc.ok = false
			gc.why = "objects of type " + k + " are reachable from the immutable table " + tableTypes[k] + " and " + why + " stores into a field of such an object"
		}
		res.checks = append(res.checks, gc)
	}
	var sn []string
	for n := range stateful {
		sn = append(sn, n)
	}
	sort.Strings(sn)
	for _, n := range sn {
		f := stateful[n][0]
		res.checks = append(res.checks, groundCheck{name: "frame.extern." + n, ok: false, why: fmt.Sprintf("call to %s (process-global state) in %s", n, shortFn(f.fn)), pos: pos(f)})
	}
	res.checks = append(res.checks, groundCheck{name: "frame.extern#none-stateful", ok: len(sn) == 0, why: "stateful external calls on the paths: " + strings.Join(sn, ", ")})
	// determinism of map iteration
	ord := map[string]int{}
	for _, f := range mapRanges {
		ord[f.fn.String()]++
		name := fmt.Sprintf("determinism.%s.%d", shortFn(f.fn), ord[f.fn.String()])
		ok, why := w.mapRangeSorted(f.fn)
		res.checks = append(res.checks, groundCheck{name: name, ok: ok, why: why, pos: pos(f)})
	}
	return res
}

// mapRangeSorted: a function that ranges over a map only collects the entries
// and sorts the collection (sort.Sort / sort.Slice) before any other use.
func (w *World) mapRangeSorted(fn *ssa.Function) (bool, string) {
	hasSort := false
	for _, b := range fn.Blocks {
		for _, instr := range b.Instrs {
			if c, ok := instr.(ssa.CallInstruction); ok {
				if f, ok := c.Common().Value.(*ssa.Function); ok {
					switch f.String() {
					case "sort.Sort", "sort.Slice", "sort.SliceStable", "sort.Stable":
						hasSort = true
					}
				}
			}
		}
	}
	if !hasSort {
		return false, "iteration over a map in " + shortFn(fn) + " whose result is not sorted afterwards: the outcome depends on the (random) iteration order"
	}
	return true, ""
}
