package main

// Symbolic simplification at generation time: linear normalisation of
// bit-vector sums (mod 2^w) and read-over-write on heap versions with
// syntactically equal keys. Both are equivalences in the theory of fixed-size
// bit-vectors and arrays, so the generated conditions mean the same; they only
// make cancellations (i+k)-(n+k) and chains of stores visible to the solvers.

import (
	"fmt"
	"math/big"
	"sort"
	"strings"
)

type linForm struct {
	w    int
	coef map[string]*big.Int
	c    *big.Int
}

func newLin(w int) *linForm { return &linForm{w: w, coef: map[string]*big.Int{}, c: new(big.Int)} }

func (l *linForm) mod() *big.Int { return new(big.Int).Lsh(big.NewInt(1), uint(l.w)) }

func (l *linForm) addAtom(a string, k *big.Int) {
	cur, ok := l.coef[a]
	if !ok {
		cur = new(big.Int)
	}
	n := new(big.Int).Add(cur, k)
	n.Mod(n, l.mod())
	if n.Sign() == 0 {
		delete(l.coef, a)
	} else {
		l.coef[a] = n
	}
}

func (l *linForm) addLin(o *linForm, k *big.Int) {
	for a, c := range o.coef {
		l.addAtom(a, new(big.Int).Mul(c, k))
	}
	l.c.Add(l.c, new(big.Int).Mul(o.c, k))
	l.c.Mod(l.c, l.mod())
}

// splitSexp splits "(op a b c)" into op and arguments; ok=false for atoms.
func splitSexp(t string) (op string, args []string, ok bool) {
	if len(t) < 2 || t[0] != '(' || t[len(t)-1] != ')' {
		return "", nil, false
	}
	inner := t[1 : len(t)-1]
	depth := 0
	start := 0
	var parts []string
	inBar := false
	for i := 0; i < len(inner); i++ {
		c := inner[i]
		if c == '|' {
			inBar = !inBar
		}
		if inBar {
			continue
		}
		switch c {
		case '(':
			depth++
		case ')':
			depth--
		case ' ':
			if depth == 0 {
				if i > start {
					parts = append(parts, inner[start:i])
				}
				start = i + 1
			}
		}
	}
	if start < len(inner) {
		parts = append(parts, inner[start:])
	}
	if len(parts) == 0 {
		return "", nil, false
	}
	return parts[0], parts[1:], true
}

func parseBVLit(t string) (*big.Int, int, bool) {
	if !strings.HasPrefix(t, "(_ bv") {
		return nil, 0, false
	}
	var w int
	rest := t[len("(_ bv") : len(t)-1]
	sp := strings.IndexByte(rest, ' ')
	if sp < 0 {
		return nil, 0, false
	}
	v, ok := new(big.Int).SetString(rest[:sp], 10)
	if !ok {
		return nil, 0, false
	}
	if _, err := fmt.Sscanf(rest[sp+1:], "%d", &w); err != nil {
		return nil, 0, false
	}
	return v, w, true
}

// linOf computes the linear form of a term of width w, looking through named
// definitions (vc.defs) up to the given depth.
func (vc *VC) linOf(t string, w int, depth int) *linForm {
	l := newLin(w)
	if v, lw, ok := parseBVLit(t); ok && lw == w {
		l.c.Set(v)
		return l
	}
	if d, ok := vc.defs[t]; ok && depth > 0 && vc.defW[t] == w {
		return vc.linOf(d, w, depth-1)
	}
	op, args, ok := splitSexp(t)
	if ok {
		switch op {
		case "bvadd":
			for _, a := range args {
				l.addLin(vc.linOf(a, w, depth), big.NewInt(1))
			}
			return l
		case "bvsub":
			if len(args) == 2 {
				l.addLin(vc.linOf(args[0], w, depth), big.NewInt(1))
				l.addLin(vc.linOf(args[1], w, depth), big.NewInt(-1))
				return l
			}
		case "bvneg":
			if len(args) == 1 {
				l.addLin(vc.linOf(args[0], w, depth), big.NewInt(-1))
				return l
			}
		case "bvmul":
			if len(args) == 2 {
				if k, kw, ok := parseBVLit(args[0]); ok && kw == w {
					l.addLin(vc.linOf(args[1], w, depth), k)
					return l
				}
				if k, kw, ok := parseBVLit(args[1]); ok && kw == w {
					l.addLin(vc.linOf(args[0], w, depth), k)
					return l
				}
			}
		}
	}
	l.addAtom(t, big.NewInt(1))
	return l
}

// emit renders the canonical term of a linear form.
func (l *linForm) emit() string {
	var atoms []string
	for a := range l.coef {
		atoms = append(atoms, a)
	}
	sort.Strings(atoms)
	half := new(big.Int).Rsh(l.mod(), 1)
	var pos, neg []string
	for _, a := range atoms {
		k := l.coef[a]
		switch {
		case k.Cmp(big.NewInt(1)) == 0:
			pos = append(pos, a)
		case new(big.Int).Add(k, big.NewInt(1)).Cmp(l.mod()) == 0:
			neg = append(neg, a)
		case k.Cmp(half) < 0:
			pos = append(pos, fmt.Sprintf("(bvmul (_ bv%s %d) %s)", k.String(), l.w, a))
		default:
			nk := new(big.Int).Sub(l.mod(), k)
			neg = append(neg, fmt.Sprintf("(bvmul (_ bv%s %d) %s)", nk.String(), l.w, a))
		}
	}
	cpos := l.c
	var cneg *big.Int
	if l.c.Cmp(half) >= 0 {
		cneg = new(big.Int).Sub(l.mod(), l.c)
		cpos = new(big.Int)
	}
	if cpos.Sign() != 0 {
		pos = append(pos, fmt.Sprintf("(_ bv%s %d)", cpos.String(), l.w))
	}
	if cneg != nil && cneg.Sign() != 0 {
		neg = append(neg, fmt.Sprintf("(_ bv%s %d)", cneg.String(), l.w))
	}
	var p string
	switch len(pos) {
	case 0:
		p = fmt.Sprintf("(_ bv0 %d)", l.w)
	case 1:
		p = pos[0]
	default:
		p = "(bvadd " + strings.Join(pos, " ") + ")"
	}
	if len(neg) == 0 {
		return p
	}
	var n string
	if len(neg) == 1 {
		n = neg[0]
	} else {
		n = "(bvadd " + strings.Join(neg, " ") + ")"
	}
	if len(pos) == 0 {
		return "(bvneg " + n + ")"
	}
	return "(bvsub " + p + " " + n + ")"
}

// linNorm normalises a sum/difference term.
func (vc *VC) linNorm(t string, w int) string {
	if vc.noSimplify || w < 16 {
		return t
	}
	l := vc.linOf(t, w, 6)
	if len(l.coef) > 12 {
		return t
	}
	return l.emit()
}

// storeInfo records how a named heap version was built.
type storeInfo struct {
	prev, key, val string
}

// smartSelect resolves a read of heap term h at key through recorded stores
// whose keys are syntactically equal (or distinct literals).
func (vc *VC) smartSelect(h, key string) string {
	for i := 0; i < 64; i++ {
		si, ok := vc.storeDefs[h]
		if !ok {
			break
		}
		if si.key == key {
			return si.val
		}
		if isBVLit(si.key) && isBVLit(key) {
			h = si.prev
			continue
		}
		break
	}
	return sel(h, key)
}
