package main

// Assumed contracts of package time: a time.Time is (sec, ns, zoff, zid):
// seconds since the Unix epoch (signed), nanoseconds within the second, zone
// offset in seconds east of UTC, zone identity (location reference).

import (
	"fmt"
	"go/token"
	"go/types"

	"golang.org/x/tools/go/ssa"
)

const timeAssumption = "time: abstract (instant, zone) model; Add/Sub exact below the saturation range (checked), Equal compares instants, In/FixedZone/Zone only affect the zone, Duration.Seconds exact on whole seconds below 2^53"

const utcZoneId = 0x400000

func init() {
	reg := func(name string, h externFn) {
		externTable[name] = func(vc *VC, fr *Frame, st *State, call *ssa.CallCommon, args []Val, rt types.Type) Val {
			vc.trusted[timeAssumption] = true
			return h(vc, fr, st, call, args, rt)
		}
	}
	e9 := bvLit(64, 1000000000)
	reg("(time.Time).Add", func(vc *VC, fr *Frame, st *State, call *ssa.CallCommon, args []Val, rt types.Type) Val {
		t, d := args[0], args[1]
		// whole-second durations built as k * time.Second: no division needed
		if bo, ok := call.Args[1].(*ssa.BinOp); ok && bo.Op == token.MUL {
			for _, pair := range [][2]ssa.Value{{bo.X, bo.Y}, {bo.Y, bo.X}} {
				if c, ok := pair[1].(*ssa.Const); ok && c.Value != nil && c.Value.ExactString() == "1000000000" {
					k := vc.value(fr, pair[0])
					vc.oblige(st, "pre@time.Time.Add", "range", and(app("bvslt", k.L[0], bvLit(64, 1<<33)), app("bvsgt", k.L[0], app("bvneg", bvLit(64, 1<<33))),
						app("bvslt", t.L[0], bvLit(64, 1<<61)), app("bvsgt", t.L[0], app("bvneg", bvLit(64, 1<<61)))), call.Pos(), vc.safetyProps)
					return Val{T: rt, L: []string{vc.define("tsec", sBV64, app("bvadd", t.L[0], k.L[0])), t.L[1], t.L[2], t.L[3]}}
				}
			}
		}
		// no saturation: |d| < 2^62 and the instant stays within +-2^61 seconds
		vc.oblige(st, "pre@time.Time.Add", "range", and(app("bvslt", d.L[0], bvLit(64, 1<<62)), app("bvsgt", d.L[0], app("bvneg", bvLit(64, 1<<62))),
			app("bvslt", t.L[0], bvLit(64, 1<<61)), app("bvsgt", t.L[0], app("bvneg", bvLit(64, 1<<61)))), call.Pos(), vc.safetyProps)
		tot := vc.define("tns", sBV64, app("bvadd", t.L[1], d.L[0]))
		// floor division by 1e9
		q := app("bvsdiv", tot, e9)
		r := app("bvsrem", tot, e9)
		neg := app("bvslt", r, bvLit(64, 0))
		qf := ite(neg, app("bvsub", q, bvLit(64, 1)), q)
		rf := ite(neg, app("bvadd", r, e9), r)
		return Val{T: rt, L: []string{vc.define("tsec", sBV64, app("bvadd", t.L[0], qf)), vc.define("tnsr", sBV64, rf), t.L[2], t.L[3]}}
	})
	reg("(time.Time).Sub", func(vc *VC, fr *Frame, st *State, call *ssa.CallCommon, args []Val, rt types.Type) Val {
		t, u := args[0], args[1]
		ds := vc.define("dsec", sBV64, app("bvsub", t.L[0], u.L[0]))
		// exact while the difference is below 2^32 seconds (far inside Duration's range); beyond that
		// time.Sub saturates: the result is left unspecified
		inRange := and(app("bvslt", ds, bvLit(64, 1<<32)), app("bvsgt", ds, app("bvneg", bvLit(64, 1<<32))))
		exact := app("bvadd", app("bvmul", ds, e9), app("bvsub", t.L[1], u.L[1]))
		res := vc.define("dur", sBV64, ite(inRange, exact, vc.freshConst("dursat", sBV64)))
		vc.durParts[res] = [2]string{ite(inRange, ds, vc.freshConst("dsecsat", sBV64)), ite(inRange, vc.define("dns", sBV64, app("bvsub", t.L[1], u.L[1])), vc.freshConst("dnssat", sBV64))}
		return Val{T: rt, L: []string{res}}
	})
	reg("(time.Time).Equal", func(vc *VC, fr *Frame, st *State, call *ssa.CallCommon, args []Val, rt types.Type) Val {
		t, u := args[0], args[1]
		return Val{T: rt, L: []string{and(eq(t.L[0], u.L[0]), eq(t.L[1], u.L[1]))}}
	})
	reg("(time.Time).In", func(vc *VC, fr *Frame, st *State, call *ssa.CallCommon, args []Val, rt types.Type) Val {
		t, loc := args[0], args[1]
		vc.oblige(st, "pre@time.Time.In", "nonnil", not(eq(loc.L[0], bvLit(64, 0))), call.Pos(), vc.safetyProps)
		off := vc.getGhost(st, "zoneOff", loc.L[0], sBV64)
		return Val{T: rt, L: []string{t.L[0], t.L[1], off, loc.L[0]}}
	})
	reg("time.FixedZone", func(vc *VC, fr *Frame, st *State, call *ssa.CallCommon, args []Val, rt types.Type) Val {
		ref := vc.allocRef(st)
		vc.setGhost(st, "zoneOff", ref, sBV64, args[1].L[0])
		return Val{T: rt, L: []string{ref}}
	})
	reg("(time.Time).Zone", func(vc *VC, fr *Frame, st *State, call *ssa.CallCommon, args []Val, rt types.Type) Val {
		t := args[0]
		name := freshVal(vc, st, types.Typ[types.String], "zname")
		return Val{T: rt, L: append(name.L, t.L[2])}
	})
	reg("(time.Duration).Seconds", func(vc *VC, fr *Frame, st *State, call *ssa.CallCommon, args []Val, rt types.Type) Val {
		d := args[0]
		whole := eq(app("bvsrem", d.L[0], e9), bvLit(64, 0))
		secs := app("bvsdiv", d.L[0], e9)
		if parts, ok := vc.durParts[d.L[0]]; ok {
			// a difference of two instants: d = dsec*1e9 + dns with |dsec| < 2^32 (checked at Sub)
			whole = eq(parts[1], bvLit(64, 0))
			secs = parts[0]
		}
		exact := fmt.Sprintf("((_ to_fp 11 53) RNE %s)", secs)
		other := vc.freshConst("dsecs", sF64)
		return Val{T: rt, L: []string{ite(whole, exact, other)}}
	})
	reg("(time.Time).IsZero", func(vc *VC, fr *Frame, st *State, call *ssa.CallCommon, args []Val, rt types.Type) Val {
		t := args[0]
		// the zero Time is January 1, year 1, 00:00:00 UTC = -62135596800 unix seconds
		return Val{T: rt, L: []string{and(eq(t.L[0], app("bvneg", bvLit(64, 62135596800))), eq(t.L[1], bvLit(64, 0)))}}
	})
}
