package main

import (
	"fmt"
	"go/token"
	"go/types"
	"sort"
	"strings"

	"golang.org/x/tools/go/ssa"
)

type FuncResult struct {
	Statics  []string
	Fn       string
	Contract *Contract
	Obls     []*Obligation
	Prelude  []string
	Script   []string
	Outside  string // non-empty: function outside the subset (reason)
	Trusted  []string
	Instrs   int
}

// verifyFunction generates all obligations of one function under contract.
func (w *World) verifyFunction(c *Contract) (res *FuncResult) {
	vc := newVC(w, c.Fn, c)
	vc.nonNil = map[string]bool{}
	vc.curContract = c
	for _, r := range c.Raw.Reveal {
		vc.revealed[r] = true
	}
	vc.curProps = c.Raw.Props
	vc.safetyProps = c.Raw.Props
	res = &FuncResult{Fn: c.Fn.String(), Contract: c}
	for _, b := range c.Fn.Blocks {
		res.Instrs += len(b.Instrs)
	}
	defer func() {
		if r := recover(); r != nil {
			switch e := r.(type) {
			case outsideSubset:
				res.Outside = e.msg
			case specErr:
				res.Outside = "spec: " + e.msg
			default:
				panic(r)
			}
		}
		vc.finishPrelude()
		res.Obls = vc.obls
		res.Prelude = vc.prelude
		res.Statics = vc.statics
		res.Script = vc.script
		for t := range vc.trusted {
			res.Trusted = append(res.Trusted, t)
		}
		sort.Strings(res.Trusted)
	}()
	fn := c.Fn
	fr := vc.newFrame(fn, true)
	st := &State{heap: newHeap(), cond: "true"}
	vc.declare("alloc0", sBV64)
	st.alloc = "alloc0"
	vc.assume("true", and(app("bvugt", "alloc0", bvLit(64, 1<<20)), app("bvult", "alloc0", bvLit(64, 1<<45))))
	// parameters
	var args []Val
	for i, p := range fn.Params {
		v := Val{T: p.Type()}
		for k, l := range layoutOf(p.Type()).Leaves {
			n := smtName(fmt.Sprintf("p!%s!%d", p.Name(), k))
			vc.declare(n, l.Sort)
			v.L = append(v.L, n)
		}
		fr.vals[p] = v
		args = append(args, v)
		vc.assumeWellFormed(st, v)
		if _, ok := p.Type().Underlying().(*types.Pointer); ok && i < c.NIn && !contains(c.Raw.Nullable, c.Params[i].Name()) {
			vc.assume("true", not(eq(v.L[0], bvLit(64, 0))))
			vc.nonNil[v.L[0]] = true
		}
	}
	if len(fn.FreeVars) > 0 {
		vc.unsupported("function with free variables")
	}
	vc.entry = st.clone()
	env := vc.contractEnv(c, args, nil, st, nil)
	var reqs []string
	for _, cl := range vc.clauses(c) {
		if cl.Raw.Kind == "requires" || cl.Raw.Kind == "use" && cl.Raw.Loop < 0 {
			t := vc.specBool(env, cl.Expr)
			reqs = append(reqs, t)
			vc.assume("true", t)
			if cl.Raw.Kind == "use" {
				vc.trusted["lemma instance "+cl.Raw.Text+" (proved separately as a lemma obligation)"] = true
			}
		}
	}
	// vacuity: the precondition (with the typing assumptions) must be satisfiable
	vc.obls = append(vc.obls, &Obligation{Name: fn.String() + "#cover.requires", Kind: "cover", Fn: fn.String(), Props: c.Raw.Props,
		Prefix: len(vc.script), Cond: "true", Goal: "false", Expect: "sat"})
	if c.Raw.Trusted {
		// the body of an assumed contract is not verified, but its control-flow clauses
		// (`loop N dispatches ...`) are decided on the CFG
		if len(fn.Blocks) > 0 {
			_, back := forwardOrder(fn)
			fr.loops = findLoops(fn, back)
			vc.dispatchObligations(fr, c)
		}
		return res
	}
	results, out := vc.execBody(fr, st)
	if out == nil {
		// function never returns normally
		return res
	}
	// cover: some return is reachable
	vc.obls = append(vc.obls, &Obligation{Name: fn.String() + "#cover.return", Kind: "cover", Fn: fn.String(), Props: c.Raw.Props,
		Prefix: len(vc.script), Cond: out.cond, Goal: "false", Expect: "sat"})
	_ = results
	// ghost assignments run at every normal return
	hasG := false
	for _, cl := range vc.clauses(c) {
		hasG = hasG || cl.Raw.Kind == "gassign"
	}
	if hasG {
		for i := range fr.retVals {
			rs := &fr.retVals[i]
			rs.st = rs.st.clone()
			vc.applyGassigns(c, vc.contractEnv(c, args, rs.vals, rs.st, vc.entry), rs.st, false)
		}
		vc.applyGassigns(c, vc.contractEnv(c, args, results, out, vc.entry), out, false)
	}
	// lemma instances over the final state (usepost): valid facts, assumed at every return
	for _, cl := range vc.clauses(c) {
		if cl.Raw.Kind != "usepost" {
			continue
		}
		for _, rs := range fr.retVals {
			post := vc.contractEnv(c, args, rs.vals, rs.st, vc.entry)
			// declared locals keep, at a return, the value of their last definition that dominates it; a
			// usepost clause that mentions a local without a value on this way out does not apply there
			if rs.instr != nil {
				for i := c.NIn + c.NRes; i < len(c.Params); i++ {
					if v, ok := vc.localAt(fr, rs.instr, c.Params[i].Name()); ok {
						if !types.Identical(v.T, c.Params[i].Type()) && len(v.L) == len(layoutOf(c.Params[i].Type()).Leaves) {
							v = Val{T: c.Params[i].Type(), L: v.L}
						}
						post.vars[c.Params[i]] = v
					}
				}
			}
			t, applies := func() (t string, ok bool) {
				defer func() {
					if r := recover(); r != nil {
						if os, isOut := r.(outsideSubset); isOut && strings.Contains(os.msg, "unbound identifier") {
							t, ok = "", false
							return
						}
						panic(r)
					}
				}()
				return vc.specBool(post, cl.Expr), true
			}()
			if applies {
				vc.assume(rs.st.cond, t)
			}
		}
		vc.trusted["lemma instance "+cl.Raw.Text+" (proved separately as a lemma obligation)"] = true
	}
	// postconditions: one obligation per clause, one sub-goal per return site
	for _, cl := range vc.clauses(c) {
		if cl.Raw.Kind != "ensures" {
			continue
		}
		var subs []*SubGoal
		for _, rs := range fr.retVals {
			post := vc.contractEnv(c, args, rs.vals, rs.st, vc.entry)
			g := vc.specBool(post, cl.Expr)
			if g == "true" {
				continue
			}
			subs = append(subs, &SubGoal{Prefix: len(vc.script), Cond: rs.st.cond, Goal: g})
		}
		splitLabel := ""
		if f := strings.Fields(c.Raw.Split); len(f) >= 4 {
			splitLabel = f[3]
		}
		if strings.HasPrefix(c.Raw.Split, "profile") && len(c.SplitExprs) >= 2 && (splitLabel == "" || splitLabel == cl.Raw.Label) {
			vc.splitByProfile(c, cl, args, subs)
			continue
		}
		vc.obligeSubs("post", cl.Raw.Label, subs, len(subs) == 0, fn.Pos(), vc.clauseProps(c, cl))
		if secs, ok := c.Raw.Slow[cl.Raw.Label]; ok {
			vc.obls[len(vc.obls)-1].TimeoutMs = secs * 1000
		}
	}
	vc.frameObligations(c, args, out)
	vc.dispatchObligations(fr, c)
	vc.callsiteCoverage(c)
	// per-label solver budgets apply to every obligation that stems from a clause with that label
	for lab, secs := range c.Raw.Slow {
		for _, o := range vc.obls {
			if strings.HasSuffix(o.Name, "."+lab) || strings.Contains(o.Name, "."+lab+".") || strings.HasSuffix(o.Name, "#"+lab) || strings.Contains(o.Name, "#"+lab+".") {
				if o.TimeoutMs < secs*1000 {
					o.TimeoutMs = secs * 1000
				}
			}
		}
	}
	return res
}

// frameObligations: every heap cell that existed at entry and is not listed in
// an assigns clause is unchanged at exit.
func (vc *VC) frameObligations(c *Contract, args []Val, out *State) {
	env := vc.contractEnv(c, args, nil, vc.entry, nil)
	targets := vc.assignTargets(c, env, -1)
	by := map[string][]locTarget{}
	for _, t := range targets {
		by[t.name] = append(by[t.name], t)
	}
	freshSeen := map[string]bool{}
	var freshGoals []string
	defer func() {
		for k, g := range freshGoals {
			vc.oblige(&State{heap: out.heap, alloc: out.alloc, cond: "true"}, "frame", fmt.Sprintf("fresh-key.%d", k+1), g, vc.fn.Pos(), nil)
		}
	}()
	groups := map[string][]string{}
	var order []string
	emit := func(name, goal string) {
		g := name
		// (one obligation per heap; grouping per object type made the queries harder, not cheaper)
		if _, ok := groups[g]; !ok {
			order = append(order, g)
		}
		groups[g] = append(groups[g], goal)
	}
	defer func() {
		for _, g := range order {
			vc.oblige(out, "frame", g, and(groups[g]...), vc.fn.Pos(), nil)
		}
	}()
	for _, name := range out.heap.names() {
		cur := out.heap.m[name]
		base := smtName(name)
		if cur == base {
			continue
		}
		if strings.HasPrefix(name, "Z!plain!") || name == "Z!rvSliceLen" || name == "Z!zoneOff" || name == "Z!iterpos" {
			continue // ghost attributes of objects created by the call itself (keys are fresh by construction)
		}
		if !vc.dirty[name] {
			continue // every store to this heap in this function went to an object allocated here
		}
		if strings.HasPrefix(name, "M!") || strings.HasPrefix(name, "G!") || strings.HasPrefix(name, "Z!") {
			whole := false
			for _, t := range by[name] {
				if t.whole || t.key == "" {
					whole = true
				}
			}
			if whole {
				continue
			}
		}
		srt := vc.heapSort[name]
		whole := false
		var keys []string
		for _, t := range by[name] {
			if t.whole || t.key == "" {
				whole = true
			}
			keys = append(keys, t.key)
		}
		if whole {
			continue
		}
		// cheap discharge: every modification of this heap was either at a key that is
		// literally one of the keys of this function's own assigns clauses, or at a key
		// that is proved (once, shared by all heaps) to belong to an object allocated
		// during the call
		if !vc.untracked[name] && (strings.HasPrefix(name, "H!") || strings.HasPrefix(name, "A!") || strings.HasPrefix(name, "M!") || strings.HasPrefix(name, "Z!rv")) {
			var pending []heapMod
			for _, m := range vc.heapMods[name] {
				found := false
				for ki, kk := range keys {
					oc := by[name][ki].cond
					if kk == m.key && (oc == "" || oc == m.cond) {
						found = true
						break
					}
				}
				if !found {
					pending = append(pending, m)
				}
			}
			for _, m := range pending {
				// the key is one of this heap's assigned keys, or belongs to a fresh object
				var alts []string
				for ki, kk := range keys {
					if kk == "" {
						continue
					}
					if oc := by[name][ki].cond; oc != "" {
						alts = append(alts, and(oc, eq(m.key, kk)))
					} else {
						alts = append(alts, eq(m.key, kk))
					}
				}
				id := name[:2] + "|" + m.key + "|" + m.site + "|" + m.cond + "|" + strings.Join(alts, ",")
				if !freshSeen[id] {
					freshSeen[id] = true
					ref := m.key
					if strings.HasPrefix(name, "A!") {
						ref = "((_ zero_extend 16) ((_ extract 63 16) " + m.key + "))"
					}
					alts = append(alts, app("bvuge", ref, "alloc0"), eq(m.key, bvLit(64, 0)))
					hyp := m.site
					if m.cond != "" {
						hyp = and(m.site, m.cond)
					}
					if hyp == "" {
						hyp = "true"
					}
					freshGoals = append(freshGoals, imp(hyp, or(alts...)))
				}
			}
			emit(name, "true")
			continue
		}
		vc.declare(base, srt)
		if !strings.HasPrefix(srt, "(Array ") {
			// scalar global / ghost
			emit(name, eq(cur, base))
			continue
		}
		// skolem key
		ks := indexSortOf(srt)
		key := vc.freshConst("fkey", ks)
		var conds []string
		switch {
		case strings.HasPrefix(name, "H!"):
			conds = append(conds, app("bvult", key, "alloc0"))
		case strings.HasPrefix(name, "A!"):
			conds = append(conds, app("bvult", "((_ zero_extend 16) ((_ extract 63 16) "+key+"))", "alloc0"))
		case strings.HasPrefix(name, "M!"):
			// map contents: pre-existing maps (the nil map has no contents)
			conds = append(conds, app("bvult", key, "alloc0"), not(eq(key, bvLit(64, 0))))
		case strings.HasPrefix(name, "Z!rv"):
			// abstract field store: cells of pre-existing objects (object 0 is "no object")
			conds = append(conds, app("bvult", key, "alloc0"), not(eq(key, bvLit(64, 0))))
		case strings.HasPrefix(name, "Z!"):
			// ghost state is keyed by object identity: only the state of objects that existed before the call is
			// framed (a buffer, file or decoder created here is the function's own)
			conds = append(conds, app("bvult", key, "alloc0"), not(eq(key, bvLit(64, 0))))
		}
		for ki, kk := range keys {
			if c := by[name][ki].cond; c != "" {
				conds = append(conds, not(and(c, eq(key, kk))))
			} else {
				conds = append(conds, not(eq(key, kk)))
			}
		}
		goal := imp(and(conds...), eq(sel(cur, key), sel(base, key)))
		emit(name, goal)
	}
}

func indexSortOf(arr string) string {
	s := strings.TrimPrefix(arr, "(Array ")
	depth := 0
	for i := 0; i < len(s); i++ {
		switch s[i] {
		case '(':
			depth++
		case ')':
			depth--
			if depth == 0 {
				return s[:i+1]
			}
		case ' ':
			if depth == 0 {
				return s[:i]
			}
		}
	}
	return s
}

// valueSortOf: the element sort of "(Array IDX VAL)".
func valueSortOf(arr string) string {
	idx := indexSortOf(arr)
	s := strings.TrimPrefix(arr, "(Array ")
	s = strings.TrimSpace(strings.TrimPrefix(s, idx))
	return strings.TrimSuffix(s, ")")
}

// ---------------------------------------------------------------------------
// World-level tables shared by all VCs.

type worldTables struct {
	strIds  map[string]int
	strs    []string
	funcIds map[*ssa.Function]int
	funcs   []*ssa.Function
	globBox map[*ssa.Global]int
}

func (w *World) strId(s string) int {
	if w.tabs.strIds == nil {
		w.tabs.strIds = map[string]int{"": 0}
		w.tabs.strs = []string{""}
	}
	if id, ok := w.tabs.strIds[s]; ok {
		return id
	}
	id := len(w.tabs.strs)
	w.tabs.strIds[s] = id
	w.tabs.strs = append(w.tabs.strs, s)
	return id
}

func (w *World) strContent(id int) (string, bool) {
	if id < 0 || id >= len(w.tabs.strs) {
		return "", false
	}
	return w.tabs.strs[id], true
}

func (w *World) funcId(f *ssa.Function) int {
	if w.tabs.funcIds == nil {
		w.tabs.funcIds = map[*ssa.Function]int{}
	}
	if id, ok := w.tabs.funcIds[f]; ok {
		return id
	}
	id := len(w.tabs.funcs) + 1
	w.tabs.funcIds[f] = id
	w.tabs.funcs = append(w.tabs.funcs, f)
	return id
}

func (w *World) globalBoxId(g *ssa.Global) int {
	if w.tabs.globBox == nil {
		w.tabs.globBox = map[*ssa.Global]int{}
	}
	if id, ok := w.tabs.globBox[g]; ok {
		return id
	}
	id := 0x100000 + len(w.tabs.globBox)
	w.tabs.globBox[g] = id
	return id
}

// verifyLemma proves a ghost lemma: hypotheses imply the conclusion for all
// values of the parameters.
func (w *World) verifyLemma(l *Lemma) (res *FuncResult) {
	vc := newVC(w, nil, nil)
	vc.label = "lemma:" + l.Pkg.Types.Name() + "." + l.Raw.Name
	vc.curProps = l.Raw.Props
	vc.safetyProps = l.Raw.Props
	for _, r := range l.Raw.Reveal {
		vc.revealed[r] = true
	}
	res = &FuncResult{Fn: vc.label}
	defer func() {
		if r := recover(); r != nil {
			switch e := r.(type) {
			case outsideSubset:
				res.Outside = e.msg
			case specErr:
				res.Outside = "spec: " + e.msg
			default:
				panic(r)
			}
		}
		vc.finishPrelude()
		res.Obls = vc.obls
		res.Prelude = vc.prelude
		res.Statics = vc.statics
		res.Script = vc.script
	}()
	st := &State{heap: newHeap(), cond: "true"}
	vc.declare("alloc0", sBV64)
	st.alloc = "alloc0"
	vc.entry = st
	env := &SpecEnv{vc: vc, pkg: l.Pkg, vars: map[types.Object]Val{}, st: st}
	for _, p := range l.Params {
		v := Val{T: p.Type()}
		for k, lf := range layoutOf(p.Type()).Leaves {
			n := smtName(fmt.Sprintf("p!%s!%d", p.Name(), k))
			vc.declare(n, lf.Sort)
			v.L = append(v.L, n)
		}
		vc.assumeWellFormed(st, v)
		env.vars[p] = v
	}
	env.oldVars = env.vars
	for _, h := range l.Hyps {
		vc.assume("true", vc.specBool(env, h))
	}
	vc.obls = append(vc.obls, &Obligation{Name: vc.label + "#cover.hyps", Kind: "cover", Fn: vc.label, Props: l.Raw.Props,
		Prefix: len(vc.script), Cond: "true", Goal: "false", Expect: "sat"})
	if len(l.Raw.Induction) == 2 {
		// the conclusion follows by induction on a natural-number parameter from two lemmas that are
		// proved as ordinary obligations (base case and step); the induction principle itself is assumed
		o := &Obligation{Name: vc.label + "#induction", Kind: "lemma", Fn: vc.label, Props: l.Raw.Props, Expect: "unsat", Solver: "ground", Status: "unsat", Goal: "true", Cond: "true"}
		for _, n := range l.Raw.Induction {
			found := false
			for _, l2 := range w.Lemmas {
				if l2.Raw.Name == n && l2.Pkg == l.Pkg && len(l2.Raw.Induction) == 0 {
					found = true
					for _, p := range l.Raw.Props {
						if !hasProp(l2.Raw.Props, p) {
							found = false
						}
					}
				}
			}
			if !found {
				o.Status = "sat"
				o.Output = "lemma " + n + " (base or step of the induction) is missing or does not serve the same properties"
				o.Model = o.Output
			}
		}
		vc.obls = append(vc.obls, o)
		res.Trusted = append(res.Trusted, "induction principle over a natural-number parameter: lemma "+l.Raw.Name+" follows from the proved lemmas "+strings.Join(l.Raw.Induction, " (base) and ")+" (step); that they are the base and step instances of its statement is by inspection")
		return res
	}
	if l.Raw.Cases == "profile" && len(l.Params) > 0 && len(env.vars[l.Params[0]].L) == 1 {
		// case split over the first parameter: every message number of the profile, and "none of them"; the
		// conditions cover all values by construction
		concl := vc.specBool(env, l.Concl)
		m := env.vars[l.Params[0]].L[0]
		wd := widthOf(l.Params[0].Type())
		var subs []*SubGoal
		var none []string
		nums := vc.w.profileMsgNums()
		for _, k := range nums {
			c := eq(m, bvLit(wd, uint64(k)))
			none = append(none, not(c))
			subs = append(subs, &SubGoal{Prefix: len(vc.script), Cond: c, Goal: concl})
		}
		subs = append(subs, &SubGoal{Prefix: len(vc.script), Cond: and(none...), Goal: concl})
		vc.obligeSubs("lemma", "", subs, false, l.Decl.Pos(), l.Raw.Props)
	} else {
		vc.oblige(st, "lemma", "", vc.specBool(env, l.Concl), l.Decl.Pos(), l.Raw.Props)
	}
	if vc.revealed["rvtables"] {
		o := vc.obls[len(vc.obls)-1]
		ax := vc.rvTableAxioms(-1)
		o.Extra = append(o.Extra, ax...)
		for _, sg := range o.Subs {
			sg.Extra = append(sg.Extra, ax...)
		}
	}
	if l.Raw.TimeoutS > 0 {
		vc.obls[len(vc.obls)-1].TimeoutMs = l.Raw.TimeoutS * 1000
	}
	return res
}

// verifySubtype: the contract of a concrete method implies the contract stated
// for the interface method it implements (behavioural subtyping).
func (w *World) verifySubtype(ic, cc *Contract) (res *FuncResult) {
	vc := newVC(w, nil, nil)
	vc.label = "subtype:" + shortFn(cc.Fn) + "<:" + ic.IfaceName
	vc.label = strings.ReplaceAll(vc.label, modPath+"/", "")
	vc.curProps = ic.Raw.Props
	vc.safetyProps = ic.Raw.Props
	res = &FuncResult{Fn: vc.label}
	defer func() {
		if r := recover(); r != nil {
			switch e := r.(type) {
			case outsideSubset:
				res.Outside = e.msg
			case specErr:
				res.Outside = "spec: " + e.msg
			default:
				panic(r)
			}
		}
		res.Obls = vc.obls
		res.Prelude = vc.prelude
		res.Script = vc.script
	}()
	st := &State{heap: newHeap(), cond: "true"}
	vc.declare("alloc0", sBV64)
	st.alloc = "alloc0"
	vc.assume("true", and(app("bvugt", "alloc0", bvLit(64, 1<<20)), app("bvult", "alloc0", bvLit(64, 1<<45))))
	vc.entry = st.clone()
	// concrete arguments
	var cargs []Val
	for i := 0; i < cc.NIn; i++ {
		t := cc.Params[i].Type()
		v := Val{T: t}
		for k, lf := range layoutOf(t).Leaves {
			n := smtName(fmt.Sprintf("p!%s!%d", cc.Params[i].Name(), k))
			vc.declare(n, lf.Sort)
			v.L = append(v.L, n)
		}
		vc.assumeWellFormed(st, v)
		cargs = append(cargs, v)
	}
	if _, ok := cargs[0].T.Underlying().(*types.Pointer); ok {
		vc.assume("true", not(eq(cargs[0].L[0], bvLit(64, 0))))
	}
	iargs := append([]Val{vc.makeInterface(st, cargs[0], nil, ic.Params[0].Type())}, cargs[1:]...)
	pre := st.clone()
	ienv := vc.contractEnv(ic, iargs, nil, st, nil)
	for _, cl := range vc.clauses(ic) {
		if cl.Raw.Kind == "requires" {
			vc.assume("true", vc.specBool(ienv, cl.Expr))
		}
	}
	cenv := vc.contractEnv(cc, cargs, nil, st, nil)
	for _, cl := range vc.clauses(cc) {
		if cl.Raw.Kind == "requires" {
			vc.oblige(st, "subtype.pre", cl.Raw.Label, vc.specBool(cenv, cl.Expr), cc.Decl.Pos(), nil)
		}
	}
	ctargets := vc.assignTargets(cc, cenv, -1)
	itargets := vc.assignTargets(ic, ienv, -1)
	for _, ct := range ctargets {
		var alts []string
		for _, it := range itargets {
			if it.name != ct.name {
				continue
			}
			if it.whole || it.key == "" {
				alts = append(alts, "true")
			} else if !ct.whole && ct.key != "" {
				alts = append(alts, eq(it.key, ct.key))
			}
		}
		vc.oblige(st, "subtype.frame", ct.name, or(alts...), cc.Decl.Pos(), nil)
	}
	vc.havocTargets(st, ctargets)
	var results []Val
	sig := cc.Fn.Signature
	for i := 0; i < sig.Results().Len(); i++ {
		results = append(results, freshVal(vc, st, sig.Results().At(i).Type(), "r"))
	}
	cpost := vc.contractEnv(cc, cargs, results, st, pre)
	for _, cl := range vc.clauses(cc) {
		if cl.Raw.Kind == "ensures" {
			vc.assume("true", vc.specBool(cpost, cl.Expr))
		}
	}
	ipost := vc.contractEnv(ic, iargs, results, st, pre)
	for _, cl := range vc.clauses(ic) {
		if cl.Raw.Kind == "ensures" {
			vc.oblige(st, "subtype.post", cl.Raw.Label, vc.specBool(ipost, cl.Expr), cc.Decl.Pos(), vc.clauseProps(ic, cl))
		}
	}
	return res
}

// subtypePairs lists (interface contract, implementing method contract) pairs.
func (w *World) subtypePairs() [][2]*Contract {
	var out [][2]*Contract
	for _, ic := range w.ContractList {
		if ic.Fn != nil {
			continue
		}
		it := ic.Params[0].Type().Underlying().(*types.Interface)
		for _, cc := range w.ContractList {
			if cc.Fn == nil || cc.Fn.Signature.Recv() == nil || cc.Raw.Name != ic.Raw.Name {
				continue
			}
			if types.Implements(cc.Fn.Signature.Recv().Type(), it) && !cc.Raw.NoSubtype {
				out = append(out, [2]*Contract{ic, cc})
			}
		}
	}
	return out
}

// finishPrelude adds the initial contents of static objects (tables) for the
// heaps this VC uses.
func (vc *VC) finishPrelude() {
	var names []string
	for n := range vc.heapSort {
		names = append(names, n)
	}
	sort.Strings(names)
	for _, n := range names {
		if vc.declared[smtName(n)] {
			vc.staticAxiomsFor(n)
		}
	}
}

// splitByProfile turns one postcondition into one obligation per profile table
// entry (message, field number) plus one for all pairs without an entry, so
// that a failure names the entry and each query sees constants.
func (vc *VC) splitByProfile(c *Contract, cl *Clause, args []Val, subs []*SubGoal) {
	p := vc.w.profile()
	env := vc.contractEnv(c, args, nil, vc.entry, nil)
	mv := env.eval(c.SplitExprs[0])
	nv := env.eval(c.SplitExprs[1])
	mw, nw := widthOf(mv.T), widthOf(nv.T)
	var rowConds []string
	props := vc.clauseProps(c, cl)
	byPos := map[token.Pos]*staticObj{}
	for _, so := range vc.w.gt.statics {
		byPos[so.pos] = so
	}
	// one query per entry: conjunction over the return sites
	var parts []string
	maxPrefix := 0
	for _, sg := range subs {
		parts = append(parts, imp(sg.Cond, sg.Goal))
		if sg.Prefix > maxPrefix {
			maxPrefix = sg.Prefix
		}
	}
	merged := and(parts...)
	// one query per message (all its field numbers symbolic); a failing message
	// is re-split per entry (Expand) so that the violation names the entry
	var msgs []int
	for m := range p.RowsByMsg {
		msgs = append(msgs, m)
	}
	sort.Ints(msgs)
	for _, m := range msgs {
		rows := p.RowsByMsg[m]
		mcond := eq(mv.L[0], bvLit(mw, uint64(m)))
		extra := vc.rvTableAxioms(m)
		var rc []string
		for _, r := range rows {
			rc = append(rc, eq(nv.L[0], bvLit(nw, uint64(r.Num))))
			rowConds = append(rowConds, and(mcond, eq(nv.L[0], bvLit(nw, uint64(r.Num)))))
			if so := byPos[r.Pos]; so != nil {
				for _, ax := range so.axioms {
					f := strings.Fields(ax)
					if len(f) > 3 && vc.declared[f[3]] {
						extra = append(extra, ax)
					}
				}
			}
		}
		ss := []*SubGoal{{Prefix: maxPrefix, Cond: and(mcond, or(rc...)), Goal: merged, Extra: extra}}
		vc.obligeSubs("table", msgLabel(p, m), ss, len(subs) == 0, token.NoPos, props)
		o := vc.obls[len(vc.obls)-1]
		o.NoStatics = true
		if len(rows) > 0 {
			o.Pos = vc.w.Fset.Position(rows[0].Pos).String()
		}
		// expansion per entry
		mm, rr, ex := m, rows, extra
		o.Expand = func() []*Obligation {
			var out []*Obligation
			for _, r := range rr {
				cond := and(eq(mv.L[0], bvLit(mw, uint64(mm))), eq(nv.L[0], bvLit(nw, uint64(r.Num))))
				eo := &Obligation{Name: fmt.Sprintf("%s#table.%s.%d", vc.fnName(), msgLabel(p, mm), r.Num), Kind: "table", Fn: vc.fnName(), Props: props,
					Subs: []*SubGoal{{Prefix: maxPrefix, Cond: cond, Goal: merged, Extra: ex}}, Expect: "unsat", Cond: "true", Goal: "true", NoStatics: true,
					Pos: vc.w.Fset.Position(r.Pos).String()}
				out = append(out, eo)
			}
			return out
		}
	}
	var ss []*SubGoal
	for _, sg := range subs {
		ss = append(ss, &SubGoal{Prefix: sg.Prefix, Cond: and(sg.Cond, not(or(rowConds...))), Goal: sg.Goal, Extra: vc.rvTableAxioms(-1)})
	}
	vc.obligeSubs("table", "unlisted", ss, len(ss) == 0, vc.fn.Pos(), props)
}

// dispatchObligations: `loop N dispatches f g ...` - every iteration of loop N
// (every path from the loop header back to it) calls one of the named
// functions.  Decided on the control-flow graph: blocks that contain such a
// call are barriers; the obligation fails if a back edge is reachable from the
// header without crossing one.
func (vc *VC) dispatchObligations(fr *Frame, c *Contract) {
	for _, cl := range vc.clauses(c) {
		if cl.Raw.Kind != "dispatches" {
			continue
		}
		names := map[string]bool{}
		for _, n := range strings.Fields(strings.ReplaceAll(cl.Raw.Text, ",", " ")) {
			names[n] = true
		}
		var li *loopInfo
		for _, l := range fr.loops {
			if l.ordinal == cl.Raw.Loop {
				li = l
			}
		}
		oname := fmt.Sprintf("%s#dispatch.%d", vc.fnName(), cl.Raw.Loop)
		if cl.Raw.Label != "" {
			oname += "." + cl.Raw.Label
		}
		o := &Obligation{Name: oname, Kind: "dispatch", Fn: vc.fnName(), Props: vc.clauseProps(c, cl), Expect: "unsat", Solver: "ground", Status: "unsat", Goal: "true", Cond: "true"}
		if li == nil {
			o.Status, o.Output = "sat", fmt.Sprintf("loop %d not found", cl.Raw.Loop)
			vc.obls = append(vc.obls, o)
			continue
		}
		o.Pos = vc.w.Fset.Position(li.header.Instrs[0].Pos()).String()
		barrier := func(b *ssa.BasicBlock) bool {
			for _, instr := range b.Instrs {
				if call, ok := instr.(ssa.CallInstruction); ok {
					if f := call.Common().StaticCallee(); f != nil && names[f.Name()] {
						return true
					}
				}
				if _, ok := instr.(*ssa.MapUpdate); ok && names["mapupdate"] {
					return true
				}
			}
			// `loop:M`: entering loop M (its header) counts
			for _, l := range fr.loops {
				if l.header == b && names[fmt.Sprintf("loop:%d", l.ordinal)] {
					return true
				}
			}
			return false
		}
		seen := map[*ssa.BasicBlock]bool{li.header: true}
		work := []*ssa.BasicBlock{li.header}
		for len(work) > 0 && o.Status == "unsat" {
			b := work[len(work)-1]
			work = work[:len(work)-1]
			if barrier(b) {
				continue
			}
			for _, s := range b.Succs {
				if s == li.header {
					o.Status = "sat"
					o.Model = fmt.Sprintf("an iteration of the loop can return to its header through block %d (%s) without calling any of %s", b.Index, vc.w.Fset.Position(lastPos(b)).String(), cl.Raw.Text)
					o.Output = o.Model
					break
				}
				if li.blocks[s] && !seen[s] {
					seen[s] = true
					work = append(work, s)
				}
				// leaving the loop from inside the body (a `break`, not the loop condition and not a return)
				// before any of the functions was called: the iteration was abandoned and the code goes on
				if !li.blocks[s] && b != li.header && !endsInReturn(s) {
					o.Status = "sat"
					o.Model = fmt.Sprintf("an iteration of the loop can leave it through block %d (%s) and carry on at block %d without calling any of %s and without returning", b.Index, vc.w.Fset.Position(lastPos(b)).String(), s.Index, cl.Raw.Text)
					o.Output = o.Model
					break
				}
			}
		}
		// `freshmap:M`: every map updated in this loop was made inside loop M (a map per iteration of M, not one
		// that outlives it and carries entries over)
		for n := range names {
			if !strings.HasPrefix(n, "freshmap:") || o.Status != "unsat" {
				continue
			}
			var lm *loopInfo
			for _, l := range fr.loops {
				if fmt.Sprintf("freshmap:%d", l.ordinal) == n {
					lm = l
				}
			}
			for b := range li.blocks {
				for _, instr := range b.Instrs {
					mu, ok := instr.(*ssa.MapUpdate)
					if !ok {
						continue
					}
					mk, isMake := mu.Map.(*ssa.MakeMap)
					if lm == nil || !isMake || !lm.blocks[mk.Block()] {
						o.Status = "sat"
						o.Model = fmt.Sprintf("the map updated at %s is not created inside loop %s: its entries survive from one iteration of that loop to the next", vc.w.Fset.Position(mu.Pos()).String(), strings.TrimPrefix(n, "freshmap:"))
						o.Output = o.Model
					}
				}
			}
		}
		vc.obls = append(vc.obls, o)
	}
}

// endsInReturn: the block returns or panics (after straight-line code only).
func endsInReturn(b *ssa.BasicBlock) bool {
	if len(b.Instrs) == 0 {
		return false
	}
	switch b.Instrs[len(b.Instrs)-1].(type) {
	case *ssa.Return, *ssa.Panic:
		return true
	}
	return false
}

func lastPos(b *ssa.BasicBlock) token.Pos {
	for i := len(b.Instrs) - 1; i >= 0; i-- {
		if p := b.Instrs[i].Pos(); p.IsValid() {
			return p
		}
	}
	return token.NoPos
}
