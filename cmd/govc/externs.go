package main

// Assumed contracts of standard-library callees and of interface methods
// (the trusted base).  Every handler records the assumption it relies on in
// vc.trusted so that the evidence lists exactly what a run used.

import (
	"fmt"
	"go/types"
	"sort"
	"strings"

	"golang.org/x/tools/go/ssa"
)

type externFn func(vc *VC, fr *Frame, st *State, call *ssa.CallCommon, args []Val, rt types.Type) Val

var externTable map[string]externFn

func init() {
	externTable = map[string]externFn{}
	registerExterns()
}

func (vc *VC) callByName(fr *Frame, st *State, name string, call *ssa.CallCommon, args []Val, rt types.Type) Val {
	// interface-method contracts declared in the repository's contract files
	if c, ok := vc.w.IfaceContracts[name]; ok {
		return vc.applyContract(fr, st, c, call, args, rt)
	}
	if h, ok := externTable[name]; ok {
		return h(vc, fr, st, call, args, rt)
	}
	// method of an external interface reached through an embedding interface
	if i := strings.LastIndex(name, ")."); i > 0 {
		m := name[i+2:]
		if h, ok := externTable["(*)."+m]; ok {
			return h(vc, fr, st, call, args, rt)
		}
	}
	vc.unsupported("call to %s has no contract or extern specification", name)
	return Val{}
}

// externEffects: heaps an extern call may modify (for loop havoc).
func (vc *VC) externEffects(name string, cc *ssa.CallCommon) []locTarget {
	vc.effCall = cc
	if c, ok := vc.w.IfaceContracts[name]; ok {
		return vc.contractAssignNames(c)
	}
	if eff, ok := externEffectTable[name]; ok {
		return eff(vc, cc)
	}
	if _, ok := externTable[name]; ok {
		return nil
	}
	vc.unsupported("call to %s inside a loop has no effect specification", name)
	return nil
}

var externEffectTable = map[string]func(vc *VC, cc *ssa.CallCommon) []locTarget{}

func freshVal(vc *VC, st *State, t types.Type, prefix string) Val {
	v := Val{T: t}
	for _, l := range layoutOf(t).Leaves {
		v.L = append(v.L, vc.freshConst(prefix, l.Sort))
	}
	vc.assumeWellFormed(st, v)
	return v
}

// newError returns a fresh non-nil error value of the given dynamic type name.
func (vc *VC) newError(st *State, kind string) Val {
	et := types.Universe.Lookup("error").Type()
	tag := bvLit(64, uint64(vc.w.tags.tagNamed("extern:"+kind)))
	ref := vc.allocRef(st)
	return Val{T: et, L: []string{tag, ref}}
}

// errIs models errors.Is(err, target) for the finite set of targets used.
func (vc *VC) errIs(err Val, target Val) string {
	vc.declareFun("ErrIs", []string{sBV64, sBV64, sBV64, sBV64}, sBool)
	vc.errTargetAxioms()
	nilErr := eq(err.L[0], bvLit(64, 0))
	same := and(eq(err.L[0], target.L[0]), eq(err.L[1], target.L[1]))
	return and(not(nilErr), or(same, app("ErrIs", err.L[0], err.L[1], target.L[0], target.L[1])))
}

func registerExterns() {
	// DecodeOption values: functions that configure the options they are given
	optName := "dyncall:func(*" + modPath + ".decodeOptions)"
	optTargets := func(vc *VC, d *PtrDesc) []locTarget { return vc.descTargets(d) }
	externTable[optName] = func(vc *VC, fr *Frame, st *State, call *ssa.CallCommon, args []Val, rt types.Type) Val {
		vc.trusted["a DecodeOption only writes the decodeOptions value it is given, does not panic and terminates"] = true
		d, ok := vc.ifacePtr[args[1].L[0]]
		if !ok {
			p := args[1]
			d = &PtrDesc{Root: rObj, Ref: p.L[0], RootT: deref(p.T), T: deref(p.T)}
		}
		vc.havocTargets(st, optTargets(vc, d))
		return Val{T: rt}
	}
	externTable["dyncall:"+modPath+".DecodeOption"] = externTable[optName]
	defer func() { externEffectTable["dyncall:"+modPath+".DecodeOption"] = externEffectTable[optName] }()
	externEffectTable[optName] = func(vc *VC, cc *ssa.CallCommon) []locTarget {
		// options live inside the decoder: all option leaves, any object
		var out []locTarget
		for _, a := range cc.Args {
			if fa, ok := a.(*ssa.FieldAddr); ok {
				stt := deref(fa.X.Type()).Underlying().(*types.Struct)
				d := &PtrDesc{Root: rObj, Ref: "?", RootT: deref(fa.X.Type()), Path: stt.Field(fa.Field).Name(), T: stt.Field(fa.Field).Type()}
				if vc.effFrame != nil {
					if v, ok := vc.effFrame.vals[fa.X]; ok && len(v.L) == 1 {
						d.Ref = v.L[0]
						out = append(out, vc.descTargets(d)...)
						continue
					}
				}
				_, isAlloc := fa.X.(*ssa.Alloc)
				for _, t := range vc.descTargets(d) {
					t.whole, t.key = true, ""
					t.freshOnly = isAlloc
					out = append(out, t)
				}
			}
		}
		return out
	}
	// ---- fmt / errors ------------------------------------------------------
	externTable["fmt.Errorf"] = func(vc *VC, fr *Frame, st *State, call *ssa.CallCommon, args []Val, rt types.Type) Val {
		vc.trusted["fmt.Errorf: total, fresh non-nil *fmt.wrapError result; errors.Is(result, t) iff errors.Is(wrapped %w operand, t)"] = true
		e := vc.newError(st, "fmt.wrapError")
		// find %w operands: arguments of the varargs slice that are errors. The
		// varargs slice is built by stores into a fresh array; recover them from SSA.
		format, _ := constStrOf(vc, args[0])
		if strings.Contains(format, "%w") {
			wrapped := vc.varargErrors(fr, call)
			vc.declareFun("ErrIs", []string{sBV64, sBV64, sBV64, sBV64}, sBool)
			for _, tgt := range vc.w.errTargets(vc) {
				var any []string
				for _, wv := range wrapped {
					any = append(any, vc.errIs(wv, tgt))
				}
				vc.assume(st.cond, eq(app("ErrIs", e.L[0], e.L[1], tgt.L[0], tgt.L[1]), or(any...)))
			}
		} else {
			for _, tgt := range vc.w.errTargets(vc) {
				vc.declareFun("ErrIs", []string{sBV64, sBV64, sBV64, sBV64}, sBool)
				vc.assume(st.cond, not(app("ErrIs", e.L[0], e.L[1], tgt.L[0], tgt.L[1])))
			}
		}
		return e
	}
	externTable["errors.New"] = func(vc *VC, fr *Frame, st *State, call *ssa.CallCommon, args []Val, rt types.Type) Val {
		vc.trusted["errors.New: fresh non-nil error, distinct from every other error value"] = true
		e := vc.newError(st, "errors.errorString")
		for _, tgt := range vc.w.errTargets(vc) {
			vc.declareFun("ErrIs", []string{sBV64, sBV64, sBV64, sBV64}, sBool)
			vc.assume(st.cond, not(app("ErrIs", e.L[0], e.L[1], tgt.L[0], tgt.L[1])))
		}
		return e
	}
	externTable["errors.Is"] = func(vc *VC, fr *Frame, st *State, call *ssa.CallCommon, args []Val, rt types.Type) Val {
		vc.trusted["errors.Is: reflexive on comparable values, false for nil, follows %w chains"] = true
		return Val{T: rt, L: []string{vc.errIs(args[0], args[1])}}
	}
	for _, n := range []string{"fmt.Sprintf", "fmt.Sprint", "fmt.Sprintln"} {
		externTable[n] = func(vc *VC, fr *Frame, st *State, call *ssa.CallCommon, args []Val, rt types.Type) Val {
			vc.trusted["fmt.Sprint*: total, no side effects; result is an unspecified string (String methods called by fmt that panic are recovered by fmt)"] = true
			return freshVal(vc, st, rt, "sprintf")
		}
	}
	// ---- math ---------------------------------------------------------------
	externTable["math.Float32frombits"] = func(vc *VC, fr *Frame, st *State, call *ssa.CallCommon, args []Val, rt types.Type) Val {
		return Val{T: rt, L: []string{fmt.Sprintf("((_ to_fp 8 24) %s)", args[0].L[0])}}
	}
	externTable["math.Float64frombits"] = func(vc *VC, fr *Frame, st *State, call *ssa.CallCommon, args []Val, rt types.Type) Val {
		return Val{T: rt, L: []string{fmt.Sprintf("((_ to_fp 11 53) %s)", args[0].L[0])}}
	}
	externTable["math.NaN"] = func(vc *VC, fr *Frame, st *State, call *ssa.CallCommon, args []Val, rt types.Type) Val {
		return Val{T: rt, L: []string{"(_ NaN 11 53)"}}
	}
}

// varargErrors returns the values of error-typed operands stored into the
// variadic argument slice of a call (fmt.Errorf("...%w", err)).
func (vc *VC) varargErrors(fr *Frame, call *ssa.CallCommon) []Val {
	var out []Val
	if len(call.Args) < 2 {
		return nil
	}
	sl, ok := call.Args[len(call.Args)-1].(*ssa.Slice)
	if !ok {
		return nil
	}
	alloc, ok := sl.X.(*ssa.Alloc)
	if !ok {
		return nil
	}
	for _, r := range *alloc.Referrers() {
		ia, ok := r.(*ssa.IndexAddr)
		if !ok {
			continue
		}
		for _, rr := range *ia.Referrers() {
			stx, ok := rr.(*ssa.Store)
			if !ok {
				continue
			}
			v := stx.Val
			if mi, ok := v.(*ssa.MakeInterface); ok {
				v = mi.X
			}
			if ci, ok := v.(*ssa.ChangeInterface); ok {
				v = ci.X
			}
			if types.Implements(v.Type(), types.Universe.Lookup("error").Type().Underlying().(*types.Interface)) {
				if _, isIface := v.Type().Underlying().(*types.Interface); isIface {
					out = append(out, vc.value(fr, v))
				} else {
					// concrete error type wrapped: its identity is the boxed value
					out = append(out, vc.value(fr, stx.Val))
				}
			}
		}
	}
	return out
}

// errTargets: the error values used as errors.Is targets in the verified packages.
func (w *World) errTargets(vc *VC) []Val {
	var out []Val
	for _, t := range w.errTargetList(vc) {
		out = append(out, t.val)
	}
	return out
}

func (vc *VC) externErrVar(name string) Val {
	et := types.Universe.Lookup("error").Type()
	tag := bvLit(64, uint64(vc.w.tags.tagNamed("extern:errors.errorString")))
	id := uint64(0x200000 + vc.w.tags.tagNamed("externvar:"+name))
	return Val{T: et, L: []string{tag, bvLit(64, id)}}
}

// ghostCall evaluates a ghost function application.
func (vc *VC) ghostCall(st *State, name string, args []Val, sig *types.Signature) (Val, error) {
	rt := sig.Results().At(0).Type()
	lay := layoutOf(rt)
	if len(lay.Leaves) != 1 {
		return Val{}, fmt.Errorf("ghost %s must return a scalar", name)
	}
	rs := lay.Leaves[0].Sort
	if vc.w.GhostConst[name] {
		var flat, sorts []string
		for _, a := range args {
			for k, l := range layoutOf(a.T).Leaves {
				flat = append(flat, a.L[k])
				sorts = append(sorts, l.Sort)
			}
		}
		fn := smtName("ghost!" + name)
		vc.declareFun(fn, sorts, rs)
		if len(flat) == 0 {
			return Val{T: rt, L: []string{fn}}, nil
		}
		return Val{T: rt, L: []string{app(fn, flat...)}}, nil
	}
	hn := ghostHeapName(name)
	if len(args) == 0 {
		vc.ghostSorts[hn] = rs
		return Val{T: rt, L: []string{vc.heapTerm(st, hn, rs)}}, nil
	}
	if len(args) == 2 {
		// two keys: a row per object, indexed by the second argument
		hs := arrSort(sBV64, arrSort(sBV64, rs))
		vc.ghostSorts[hn] = hs
		k1 := bvExtend(args[1].L[0], widthOf(args[1].T), 64, isSigned(args[1].T))
		return Val{T: rt, L: []string{sel(sel(vc.heapTerm(st, hn, hs), ghostKey(args[0])), k1)}}, nil
	}
	hs := arrSort(sBV64, rs)
	vc.ghostSorts[hn] = hs
	term := sel(vc.heapTerm(st, hn, hs), ghostKey(args[0]))
	if name == "pos" && !vc.inlineMode {
		// reader model invariant: positions are non-negative and streams are shorter than 2^50 bytes
		vc.trusted[readerAssumption] = true
		vc.script = append(vc.script, fmt.Sprintf("(assert (and (bvsle (_ bv0 64) %s) (bvslt %s (_ bv%d 64))))", term, term, uint64(1)<<50))
		if len(args[0].L) == 2 {
			vc.streamFns()
			vc.script = append(vc.script, fmt.Sprintf("(assert (and (bvsle %s %s) (bvsle %s %s) (bvslt %s (_ bv%d 64)) (bvslt %s (_ bv%d 64))))", term, vc.eofPos(args[0]), term, vc.faultPos(args[0]),
				vc.eofPos(args[0]), uint64(1)<<50, vc.faultPos(args[0]), uint64(1)<<50))
		}
	}
	return Val{T: rt, L: []string{term}}, nil
}

// setGhost updates ghost state (used by extern handlers).
func (vc *VC) setGhost(st *State, name string, key string, sort string, val string) {
	hn := ghostHeapName(name)
	hs := arrSort(sBV64, sort)
	vc.ghostSorts[hn] = hs
	h := vc.heapTerm(st, hn, hs)
	vc.setHeap(st, hn, hs, sto(h, key, val))
}

func (vc *VC) getGhost(st *State, name string, key string, sort string) string {
	hn := ghostHeapName(name)
	hs := arrSort(sBV64, sort)
	vc.ghostSorts[hn] = hs
	return sel(vc.heapTerm(st, hn, hs), key)
}

// rvInterface: the interface value a reflect.Value of a whole message yields.
func (vc *VC) rvInterface(v Val) Val {
	vc.declareRVFuncs()
	it := types.NewInterfaceType(nil, nil)
	// a Value that views a whole message yields the message type; a field or element Value its own static type
	return Val{T: it, L: []string{ite(and(app("bvult", v.L[iMt], bvLit(64, rvElemV)), eq(v.L[iFld], allOnes64)), app("RVTag", v.L[iMt]), v.L[iTTag]), v.L[iObj]}}
}

// errTarget describes one error value used as an errors.Is target.
type errTarget struct {
	val  Val         // interface value (canonical box)
	g    *ssa.Global // repository variable (nil for standard-library variables)
	conc types.Type  // concrete type
}

func (w *World) errTargetList(vc *VC) []errTarget {
	var out []errTarget
	et := types.Universe.Lookup("error").Type()
	for _, gname := range []string{"io.EOF", "io.ErrUnexpectedEOF"} {
		out = append(out, errTarget{val: vc.externErrVar(gname)})
	}
	var gs []*ssa.Global
	for _, sp := range w.SSAPkgs {
		for _, m := range sp.Members {
			g, ok := m.(*ssa.Global)
			if !ok {
				continue
			}
			t := g.Type().(*types.Pointer).Elem()
			if _, isIface := t.Underlying().(*types.Interface); isIface {
				continue
			}
			if !types.Implements(t, et.Underlying().(*types.Interface)) || !w.immutableGlobal(g) {
				continue
			}
			gs = append(gs, g)
		}
	}
	sort.Slice(gs, func(i, j int) bool { return gs[i].String() < gs[j].String() })
	for _, g := range gs {
		t := g.Type().(*types.Pointer).Elem()
		out = append(out, errTarget{val: Val{T: et, L: []string{bvLit(64, uint64(w.tags.tag(t))), bvLit(64, uint64(w.globalBoxId(g)))}}, g: g, conc: t})
	}
	return out
}

// errTargetAxioms: errors.Is between the known target values themselves.
func (vc *VC) errTargetAxioms() {
	if vc.errAxDone {
		return
	}
	vc.errAxDone = true
	vc.trusted["errors.Is on error values without Unwrap/Is methods is == on (dynamic type, value)"] = true
	ts := vc.w.errTargetList(vc)
	st := &State{heap: newHeap(), alloc: "alloc0", cond: "true"}
	for i, a := range ts {
		for j, b := range ts {
			if i == j {
				continue
			}
			eqv := "false"
			if a.g != nil && b.g != nil && types.Identical(a.conc, b.conc) {
				va := vc.loadGlobalPath(st, &PtrDesc{Root: rGlobal, Glob: a.g, RootT: a.conc, T: a.conc})
				vb := vc.loadGlobalPath(st, &PtrDesc{Root: rGlobal, Glob: b.g, RootT: b.conc, T: b.conc})
				eqv = vc.valEq(va, vb)
			}
			vc.prelude = append(vc.prelude, fmt.Sprintf("(assert (= (ErrIs %s %s %s %s) %s))", a.val.L[0], a.val.L[1], b.val.L[0], b.val.L[1], eqv))
		}
	}
}

// errBoxAxioms: a freshly boxed concrete error value (no Unwrap) is errors.Is
// a target exactly when it has the target's type and value.
func (vc *VC) errBoxAxioms(st *State, iv Val, v Val) {
	et := types.Universe.Lookup("error").Type()
	if !types.Implements(v.T, et.Underlying().(*types.Interface)) {
		return
	}
	if hasMethod(v.T, "Unwrap") || hasMethod(v.T, "Is") {
		return
	}
	vc.declareFun("ErrIs", []string{sBV64, sBV64, sBV64, sBV64}, sBool)
	vc.errTargetAxioms()
	for _, t := range vc.w.errTargetList(vc) {
		eqv := "false"
		if t.g != nil && types.Identical(t.conc, v.T) {
			tv := vc.loadGlobalPath(st, &PtrDesc{Root: rGlobal, Glob: t.g, RootT: t.conc, T: t.conc})
			eqv = vc.valEq(v, tv)
		}
		vc.assume(st.cond, eq(app("ErrIs", iv.L[0], iv.L[1], t.val.L[0], t.val.L[1]), eqv))
	}
}

func hasMethod(t types.Type, name string) bool {
	ms := types.NewMethodSet(t)
	for i := 0; i < ms.Len(); i++ {
		if ms.At(i).Obj().Name() == name {
			return true
		}
	}
	ms = types.NewMethodSet(types.NewPointer(t))
	for i := 0; i < ms.Len(); i++ {
		if ms.At(i).Obj().Name() == name {
			return true
		}
	}
	return false
}
