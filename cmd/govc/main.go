package main

import (
	"flag"
	"fmt"
	"os"
	"sort"
	"strings"
	"time"
)

func main() {
	if len(os.Args) < 2 {
		fmt.Fprintln(os.Stderr, "usage: govc check <property> [--tier quick|thorough] [--repo DIR] | dump <func> | list")
		os.Exit(2)
	}
	switch os.Args[1] {
	case "check":
		os.Exit(cmdCheck(os.Args[2:]))
	case "dump":
		os.Exit(cmdDump(os.Args[2:]))
	case "ssa":
		os.Exit(cmdSSA(os.Args[2:]))
	default:
		fmt.Fprintln(os.Stderr, "unknown command", os.Args[1])
		os.Exit(2)
	}
}

func cmdSSA(args []string) int {
	w, err := loadWorld("/repo", false)
	if err != nil {
		fmt.Fprintln(os.Stderr, err)
		return 3
	}
	for _, a := range args {
		for fn := range w.AllFuncs {
			if fn.String() == a || strings.HasSuffix(fn.String(), a) {
				fn.WriteTo(os.Stdout)
			}
		}
	}
	return 0
}

// cmdDump verifies the named functions and prints every obligation with its status.
func cmdDump(args []string) int {
	fs := flag.NewFlagSet("dump", flag.ExitOnError)
	repo := fs.String("repo", "/repo", "repository")
	smt := fs.String("smt", "", "print the SMT query of the obligation with this name")
	timeout := fs.Int("timeout", 10000, "ms per obligation")
	layer := fs.String("layer", "", "property whose contract layer is active (default: all clauses)")
	fs.Parse(args)
	w, err := loadWorld(*repo, true)
	if w != nil {
		w.layer = *layer
	}
	if err != nil {
		fmt.Fprintln(os.Stderr, err)
		return 3
	}
	var items []workItem
	var frs []*FuncResult
	for _, c := range w.ContractList {
		if c.Fn == nil {
			continue
		}
		match := len(fs.Args()) == 0
		for _, a := range fs.Args() {
			if strings.Contains(c.Fn.String(), a) {
				match = true
			}
		}
		if !match {
			continue
		}
		tv := time.Now()
		fr := w.verifyFunction(c)
		fmt.Fprintf(os.Stderr, "generated %s: %d obligations in %.1fs\n", fr.Fn, len(fr.Obls), time.Since(tv).Seconds())
		frs = append(frs, fr)
		if fr.Outside != "" {
			fmt.Printf("OUTSIDE-SUBSET %s: %s\n", fr.Fn, fr.Outside)
		}
		for _, o := range fr.Obls {
			if *smt != "" && strings.Contains(o.Name, *smt) {
				fmt.Println(queryText(fr, o))
			}
			items = append(items, workItem{fr, o})
		}
	}
	for _, l := range w.Lemmas {
		match := len(fs.Args()) == 0
		for _, a := range fs.Args() {
			if strings.Contains("lemma:"+l.Pkg.Types.Name()+"."+l.Raw.Name, a) || strings.Contains(l.Pkg.PkgPath, a) {
				match = true
			}
		}
		if !match {
			continue
		}
		fr := w.verifyLemma(l)
		if fr.Outside != "" {
			fmt.Printf("OUTSIDE-SUBSET %s: %s\n", fr.Fn, fr.Outside)
		}
		for _, o := range fr.Obls {
			if *smt != "" && strings.Contains(o.Name, *smt) {
				fmt.Println(queryText(fr, o))
			}
			items = append(items, workItem{fr, o})
		}
	}
	for _, pr := range w.subtypePairs() {
		match := len(fs.Args()) == 0
		for _, a := range fs.Args() {
			if strings.Contains("subtype:"+pr[1].Fn.String(), a) {
				match = true
			}
		}
		if !match {
			continue
		}
		fr := w.verifySubtype(pr[0], pr[1])
		if fr.Outside != "" {
			fmt.Printf("OUTSIDE-SUBSET %s: %s\n", fr.Fn, fr.Outside)
		}
		for _, o := range fr.Obls {
			if *smt != "" && strings.Contains(o.Name, *smt) {
				fmt.Println(queryText(fr, o))
			}
			items = append(items, workItem{fr, o})
		}
	}
	if *smt != "" {
		return 0
	}
	td := time.Now()
	dischargeAll(items, *timeout, 16)
	items = expandFailed(items, *timeout)
	fmt.Fprintf(os.Stderr, "discharged in %.1fs\n", time.Since(td).Seconds())
	sort.SliceStable(items, func(i, j int) bool { return items[i].o.Fn < items[j].o.Fn })
	bad := 0
	for _, it := range items {
		o := it.o
		ok := oblOK(o)
		mark := "ok  "
		if !ok {
			mark = "FAIL"
			bad++
		}
		fmt.Printf("%s %-8s %-7s %5.2fs %s %v\n", mark, o.Status, o.Solver, o.Seconds, o.Name, o.Props)
		if !ok && o.Status == "sat" {
			fmt.Println(indent(truncate(o.Model, 3000)))
		}
		if !ok && o.Status == "error" {
			fmt.Println(indent(truncate(o.Output, 1500)))
		}
	}
	fmt.Printf("%d obligations, %d not as expected\n", len(items), bad)
	if bad > 0 {
		return 1
	}
	return 0
}

func indent(s string) string { return "      " + strings.ReplaceAll(s, "\n", "\n      ") }
func truncate(s string, n int) string {
	if len(s) > n {
		return s[:n] + "..."
	}
	return s
}
