package main

// Mechanical extraction of the profile tables (profile.go) and of the message
// struct types they refer to, from the type-checked AST, on every run.

import (
	"fmt"
	"go/ast"
	"go/token"
	"go/types"
	"sort"
	"strings"

	"golang.org/x/tools/go/ssa"
)

type FieldRow struct {
	Msg    int
	Num    int
	Sindex int
	Fit    int
	Length int
	Pos    token.Pos
}

func (r FieldRow) Base() int   { return decompressBase(r.Fit & 0x1F) }
func (r FieldRow) Array() bool { return r.Fit&0x20 != 0 }
func (r FieldRow) Kind() int   { return (r.Fit >> 6) & 7 }

// decompressBase mirrors types.decompress (checked against the real function
// by its own contract; used here only for reporting).
func decompressBase(b int) int {
	switch b {
	case 3, 4, 5, 6, 8, 9, 0x0B, 0x0C, 0x0E, 0x0F, 0x10:
		return b | 0x80
	}
	return b
}

type StructField struct {
	Name     string
	T        types.Type
	Exported bool
	Class    int // see cls* constants
	Width    int
	EClass   int // element class for slices
	EWidth   int
}

const (
	clsOther = iota
	clsUint
	clsInt
	clsFloat
	clsString
	clsSlice
	clsTime
	clsLat
	clsLng
	clsStruct
	clsBool
)

type MsgInfo struct {
	Num    int
	Name   string // Go type name (FileIdMsg)
	Const  string // MesgNumFileId
	Named  *types.Named
	Fields []StructField
	Ctor   string // constructor function name called by newMesgFuncs entry
}

type Profile struct {
	Known       map[int]bool
	KnownList   []int
	Rows        []FieldRow
	RowsByMsg   map[int][]FieldRow
	FieldsLen   int              // len(_fields)
	Msgs        map[int]*MsgInfo // from msgsTypes
	MsgTypesLen int
	NewFuncs    map[int]string // from newMesgFuncs: constructor name
	NewFuncsLen int
	Err         []string
}

func (w *World) profile() *Profile {
	if w.prof != nil {
		return w.prof
	}
	p := &Profile{Known: map[int]bool{}, RowsByMsg: map[int][]FieldRow{}, Msgs: map[int]*MsgInfo{}, NewFuncs: map[int]string{}}
	w.prof = p
	pkg := w.PkgByPath[modPath]
	if pkg == nil {
		p.Err = append(p.Err, "package not loaded")
		return p
	}
	info := pkg.TypesInfo
	find := func(name string) (ast.Expr, types.Type) {
		for _, f := range pkg.Syntax {
			for _, d := range f.Decls {
				gd, ok := d.(*ast.GenDecl)
				if !ok || gd.Tok != token.VAR {
					continue
				}
				for _, s := range gd.Specs {
					vs := s.(*ast.ValueSpec)
					for i, n := range vs.Names {
						if n.Name == name && len(vs.Values) > i {
							return vs.Values[i], info.Defs[n].Type()
						}
					}
				}
			}
		}
		return nil, nil
	}
	// knownMsgNums
	if x, _ := find("knownMsgNums"); x != nil {
		if cl, ok := x.(*ast.CompositeLit); ok {
			for _, el := range cl.Elts {
				kv := el.(*ast.KeyValueExpr)
				k, ok1 := constInt(info, kv.Key)
				tv := info.Types[kv.Value]
				if !ok1 || tv.Value == nil {
					p.Err = append(p.Err, "knownMsgNums: non-constant entry")
					continue
				}
				if tv.Value.String() == "true" {
					p.Known[int(k)] = true
				}
			}
		}
	} else {
		p.Err = append(p.Err, "knownMsgNums not found")
	}
	for k := range p.Known {
		p.KnownList = append(p.KnownList, k)
	}
	sort.Ints(p.KnownList)
	// _fields
	if x, t := find("_fields"); x != nil {
		if at, ok := t.Underlying().(*types.Array); ok {
			p.FieldsLen = int(at.Len())
		}
		cl := x.(*ast.CompositeLit)
		idx := int64(0)
		for _, el := range cl.Elts {
			var vx ast.Expr = el
			if kv, ok := el.(*ast.KeyValueExpr); ok {
				k, _ := constInt(info, kv.Key)
				idx = k
				vx = kv.Value
			}
			inner, ok := vx.(*ast.CompositeLit)
			if !ok {
				p.Err = append(p.Err, "_fields: unexpected element")
				continue
			}
			fi := int64(0)
			for _, fe := range inner.Elts {
				var fx ast.Expr = fe
				if kv, ok := fe.(*ast.KeyValueExpr); ok {
					k, _ := constInt(info, kv.Key)
					fi = k
					fx = kv.Value
				}
				fl, ok := fx.(*ast.CompositeLit)
				if !ok || len(fl.Elts) != 4 {
					p.Err = append(p.Err, fmt.Sprintf("_fields[%d][%d]: unexpected entry shape", idx, fi))
					fi++
					continue
				}
				vals := make([]int64, 4)
				okAll := true
				for k, e := range fl.Elts {
					if kv, isKV := e.(*ast.KeyValueExpr); isKV {
						e = kv.Value
					}
					v, ok := constInt(info, e)
					if !ok {
						okAll = false
					}
					vals[k] = v
				}
				if !okAll {
					p.Err = append(p.Err, fmt.Sprintf("_fields[%d][%d]: non-constant entry", idx, fi))
				}
				r := FieldRow{Msg: int(idx), Num: int(fi), Sindex: int(vals[0]), Fit: int(vals[2]), Length: int(vals[3]), Pos: fl.Pos()}
				// the row's own num field
				if int(vals[1]) != int(fi) {
					r.Num = int(fi)
					p.Err = append(p.Err, fmt.Sprintf("_fields[%d][%d]: entry lists field number %d", idx, fi, vals[1]))
				}
				p.Rows = append(p.Rows, r)
				p.RowsByMsg[int(idx)] = append(p.RowsByMsg[int(idx)], r)
				fi++
			}
			idx++
		}
	} else {
		p.Err = append(p.Err, "_fields not found")
	}
	// msgsTypes
	if x, t := find("msgsTypes"); x != nil {
		if at, ok := t.Underlying().(*types.Array); ok {
			p.MsgTypesLen = int(at.Len())
		}
		cl := x.(*ast.CompositeLit)
		idx := int64(0)
		for _, el := range cl.Elts {
			var vx ast.Expr = el
			constName := ""
			if kv, ok := el.(*ast.KeyValueExpr); ok {
				k, _ := constInt(info, kv.Key)
				idx = k
				if id, ok := kv.Key.(*ast.Ident); ok {
					constName = id.Name
				}
				vx = kv.Value
			}
			// reflect.TypeOf(XMsg{})
			call, ok := vx.(*ast.CallExpr)
			if ok && len(call.Args) == 1 {
				if tv, ok := info.Types[call.Args[0]]; ok {
					if named, ok := tv.Type.(*types.Named); ok {
						mi := &MsgInfo{Num: int(idx), Name: named.Obj().Name(), Const: constName, Named: named}
						if stt, ok := named.Underlying().(*types.Struct); ok {
							for i := 0; i < stt.NumFields(); i++ {
								mi.Fields = append(mi.Fields, classifyField(stt.Field(i)))
							}
						}
						p.Msgs[int(idx)] = mi
					}
				}
			}
			idx++
		}
	} else {
		p.Err = append(p.Err, "msgsTypes not found")
	}
	// newMesgFuncs
	if x, t := find("newMesgFuncs"); x != nil {
		if at, ok := t.Underlying().(*types.Array); ok {
			p.NewFuncsLen = int(at.Len())
		}
		cl := x.(*ast.CompositeLit)
		idx := int64(0)
		for _, el := range cl.Elts {
			var vx ast.Expr = el
			if kv, ok := el.(*ast.KeyValueExpr); ok {
				k, _ := constInt(info, kv.Key)
				idx = k
				vx = kv.Value
			}
			// func() reflect.Value { return reflect.ValueOf(NewXMsg()) }
			if fl, ok := vx.(*ast.FuncLit); ok && len(fl.Body.List) == 1 {
				if rs, ok := fl.Body.List[0].(*ast.ReturnStmt); ok && len(rs.Results) == 1 {
					if c1, ok := rs.Results[0].(*ast.CallExpr); ok && len(c1.Args) == 1 {
						if c2, ok := c1.Args[0].(*ast.CallExpr); ok {
							if id, ok := c2.Fun.(*ast.Ident); ok {
								p.NewFuncs[int(idx)] = id.Name
							}
						}
					}
				}
			}
			if _, ok := p.NewFuncs[int(idx)]; !ok {
				p.Err = append(p.Err, fmt.Sprintf("newMesgFuncs[%d]: unexpected shape", idx))
			}
			idx++
		}
	} else {
		p.Err = append(p.Err, "newMesgFuncs not found")
	}
	return p
}

func classifyField(f *types.Var) StructField {
	sf := StructField{Name: f.Name(), T: f.Type(), Exported: f.Exported()}
	sf.Class, sf.Width = classifyType(f.Type())
	if slt, ok := f.Type().Underlying().(*types.Slice); ok {
		sf.EClass, sf.EWidth = classifyType(slt.Elem())
	}
	return sf
}

func classifyType(t types.Type) (int, int) {
	if n, ok := t.(*types.Named); ok && n.Obj().Pkg() != nil {
		switch n.Obj().Pkg().Path() + "." + n.Obj().Name() {
		case "time.Time":
			return clsTime, 0
		case modPath + ".Latitude":
			return clsLat, 0
		case modPath + ".Longitude":
			return clsLng, 0
		}
	}
	switch u := t.Underlying().(type) {
	case *types.Basic:
		switch {
		case u.Info()&types.IsBoolean != 0:
			return clsBool, 0
		case u.Info()&types.IsInteger != 0 && u.Info()&types.IsUnsigned != 0:
			return clsUint, intWidth(u)
		case u.Info()&types.IsInteger != 0:
			return clsInt, intWidth(u)
		case u.Kind() == types.Float32:
			return clsFloat, 32
		case u.Kind() == types.Float64:
			return clsFloat, 64
		case u.Info()&types.IsString != 0:
			return clsString, 0
		}
	case *types.Slice:
		return clsSlice, 0
	case *types.Struct:
		return clsStruct, 0
	}
	return clsOther, 0
}

// ---------------------------------------------------------------------------
// SMT tables over (message number, struct field index): uninterpreted
// functions with ground axioms. The axioms are included in a VC only on demand
// (vc.needRVTables) so that consumers reason from the validator's contract.

var rvFuncs = []string{"RVNumField", "RVClass", "RVWidth", "RVEClass", "RVEWidth", "RVTypeTag", "RVTag"}

func (vc *VC) declareRVFuncs() {
	vc.declareFun("RVNumField", []string{sBV64}, sBV64)
	vc.declareFun("RVTag", []string{sBV64}, sBV64)
	for _, f := range []string{"RVClass", "RVWidth", "RVEClass", "RVEWidth", "RVTypeTag", "RVRow"} {
		vc.declareFun(f, []string{sBV64, sBV64}, sBV64)
	}
}

// rvTableAxioms returns the ground axioms for message m (all messages if m < 0).
func (vc *VC) rvTableAxioms(m int) []string {
	vc.declareRVFuncs()
	p := vc.w.profile()
	var out []string
	var ms []int
	for k := range p.Msgs {
		if m < 0 || k == m {
			ms = append(ms, k)
		}
	}
	sort.Ints(ms)
	for _, k := range ms {
		mi := p.Msgs[k]
		mk := bvLit(64, uint64(k))
		out = append(out, fmt.Sprintf("(assert (= (RVNumField %s) %s))", mk, bvLit(64, uint64(len(mi.Fields)))))
		out = append(out, fmt.Sprintf("(assert (= (RVTag %s) %s))", mk, bvLit(64, uint64(vc.w.tags.tag(mi.Named)))))
		for i, f := range mi.Fields {
			fk := bvLit(64, uint64(i))
			out = append(out, fmt.Sprintf("(assert (and (= (RVClass %s %s) %s) (= (RVWidth %s %s) %s) (= (RVEClass %s %s) %s) (= (RVEWidth %s %s) %s) (= (RVTypeTag %s %s) %s)))",
				mk, fk, bvLit(64, uint64(f.Class)), mk, fk, bvLit(64, uint64(f.Width)), mk, fk, bvLit(64, uint64(f.EClass)), mk, fk, bvLit(64, uint64(f.EWidth)),
				mk, fk, bvLit(64, uint64(vc.w.tags.tag(f.T)))))
		}
		// RVRow: a witness (the number of the first profile row with that struct index) for statements of the
		// form "every struct field has a profile row"; it carries no meaning of its own - lemmas that use it are
		// proved against the revealed _fields table
		seen := map[int]bool{}
		rows := append([]FieldRow(nil), p.RowsByMsg[k]...)
		sort.Slice(rows, func(a, b int) bool { return rows[a].Num < rows[b].Num })
		for _, r := range rows {
			if !seen[r.Sindex] {
				seen[r.Sindex] = true
				out = append(out, fmt.Sprintf("(assert (= (RVRow %s %s) %s))", mk, bvLit(64, uint64(r.Sindex)), bvLit(64, uint64(r.Num))))
			}
		}
	}
	return out
}

func (w *World) constructorOf(name string) *ssa.Function {
	sp := w.SSAPkgs[modPath]
	if sp == nil {
		return nil
	}
	return sp.Func(name)
}

func msgLabel(p *Profile, m int) string {
	if mi, ok := p.Msgs[m]; ok {
		return strings.TrimSuffix(mi.Name, "Msg")
	}
	return fmt.Sprintf("msg%d", m)
}

// msgNumOfType: t is one of the message struct types of msgsTypes.
func (w *World) msgNumOfType(t types.Type) (int, bool) {
	n, ok := t.(*types.Named)
	if !ok {
		return 0, false
	}
	for k, mi := range w.profile().Msgs {
		if types.Identical(mi.Named, n) {
			return k, true
		}
	}
	return 0, false
}

func (w *World) profileMsgNums() []int {
	var out []int
	for k := range w.profile().Msgs {
		out = append(out, k)
	}
	sort.Ints(out)
	return out
}
