package main

import (
	"fmt"
	"go/ast"
	"go/token"
	"go/types"
	"os"
	"path/filepath"
	"sort"
	"strings"

	"golang.org/x/tools/go/packages"
	"golang.org/x/tools/go/ssa"
	"golang.org/x/tools/go/ssa/ssautil"
)

const modPath = "github.com/tormoder/fit"

var verifiedPkgDirs = []string{".", "./dyncrc16", "./internal/types"}

type Clause struct {
	Raw                    *RawClause
	Expr                   ast.Expr   // typed expression (overlay AST)
	Locs                   []ast.Expr // for assigns
	Whole                  []bool     // for assigns: loc[..] (whole array)
	GTarget, GValue, GCond ast.Expr   // for gassign
}

type Contract struct {
	Raw        *RawContract
	Pkg        *packages.Package
	Fn         *ssa.Function
	Decl       *ast.FuncDecl // generated clause function
	Params     []*types.Var  // overlay params in order: recv+params, results, locals
	NIn        int           // number of receiver+params
	NRes       int
	Clauses    []*Clause
	IfaceSig   *types.Signature
	IfaceName  string
	SplitExprs []ast.Expr
}

func (c *Contract) Key() string {
	if c.Fn == nil {
		return c.IfaceName
	}
	return c.Fn.String()
}

type SpecFn struct {
	Raw  *RawSpec
	Pkg  *packages.Package
	Decl *ast.FuncDecl
	Obj  *types.Func
}

type Lemma struct {
	Raw    *RawLemma
	Pkg    *packages.Package
	Decl   *ast.FuncDecl
	Hyps   []ast.Expr
	Concl  ast.Expr
	Params []*types.Var
}

type World struct {
	Repo            string
	Fset            *token.FileSet
	Pkgs            []*packages.Package
	PkgByPath       map[string]*packages.Package
	Prog            *ssa.Program
	SSAPkgs         map[string]*ssa.Package
	Contracts       map[string]*Contract // by ssa function String()
	ContractList    []*Contract
	Specs           map[*types.Func]*SpecFn
	SpecByName      map[string]*SpecFn // pkgpath.name
	layer           string             // active contract layer for VCs created from now on
	Ghosts          map[*types.Func]string
	Lemmas          []*Lemma
	Overlays        map[string]string // path -> content
	CFiles          []*ContractFile
	AllFuncs        map[*ssa.Function]bool
	IfaceContracts  map[string]*Contract // "(pkg.Iface).Method" -> contract
	GhostConst      map[string]bool
	tags            *TypeTags
	tabs            worldTables
	gt              globalTables
	closureBindings map[*ssa.MakeClosure][]ssa.Value
	prof            *Profile
	initNotes       map[string]bool
}

func goEnv() []string {
	return append(os.Environ(), "GOFLAGS=-mod=mod", "GOPROXY=off", "GOSUMDB=off", "GOTOOLCHAIN=local")
}

// loadWorld parses the contract files of repo, generates overlays, loads and
// type-checks the three verified packages with the overlays and builds SSA.
func loadWorld(repo string, withContracts bool) (*World, error) {
	w := &World{Repo: repo, Contracts: map[string]*Contract{}, Specs: map[*types.Func]*SpecFn{},
		SpecByName: map[string]*SpecFn{}, Ghosts: map[*types.Func]string{}, Overlays: map[string]string{},
		PkgByPath: map[string]*packages.Package{}, SSAPkgs: map[string]*ssa.Package{}, IfaceContracts: map[string]*Contract{},
		GhostConst: map[string]bool{}, initNotes: map[string]bool{}, tags: newTypeTags(), closureBindings: map[*ssa.MakeClosure][]ssa.Value{}}
	overlay := map[string][]byte{}
	if withContracts {
		for _, d := range verifiedPkgDirs {
			p := filepath.Join(repo, d, "contracts_verif.go")
			if _, err := os.Stat(p); err != nil {
				continue
			}
			cf, err := parseContractFile(p)
			if err != nil {
				return nil, err
			}
			src, err := genOverlay(cf)
			if err != nil {
				return nil, err
			}
			op := filepath.Join(repo, d, "zz_govc_overlay.go")
			overlay[op] = []byte(src)
			w.Overlays[op] = src
			w.CFiles = append(w.CFiles, cf)
		}
	}
	cfg := &packages.Config{Mode: packages.LoadAllSyntax, Dir: repo, BuildFlags: []string{"-tags=verif"},
		Env: goEnv(), Overlay: overlay}
	pkgs, err := packages.Load(cfg, verifiedPkgDirs...)
	if err != nil {
		return nil, err
	}
	var errs []string
	packages.Visit(pkgs, nil, func(p *packages.Package) {
		for _, e := range p.Errors {
			errs = append(errs, e.Error())
		}
	})
	if len(errs) > 0 {
		sort.Strings(errs)
		if len(errs) > 20 {
			errs = errs[:20]
		}
		return nil, &StaleError{Msg: strings.Join(errs, "\n")}
	}
	w.Pkgs = pkgs
	for _, p := range pkgs {
		w.PkgByPath[p.PkgPath] = p
		w.Fset = p.Fset
	}
	prog, spkgs := ssautil.AllPackages(pkgs, ssa.InstantiateGenerics|ssa.GlobalDebug)
	prog.Build()
	w.Prog = prog
	for i, sp := range spkgs {
		if sp != nil {
			w.SSAPkgs[pkgs[i].PkgPath] = sp
		}
	}
	w.AllFuncs = ssautil.AllFunctions(prog)
	// extract the initial values of all package-level variables up front
	for _, sp := range w.SSAPkgs {
		var names []string
		for n := range sp.Members {
			names = append(names, n)
		}
		sort.Strings(names)
		for _, n := range names {
			if g, ok := sp.Members[n].(*ssa.Global); ok {
				w.globalInfoOf(g)
			}
		}
	}
	if withContracts {
		if err := w.bindContracts(); err != nil {
			return nil, err
		}
	}
	return w, nil
}

// StaleError: the contracts no longer bind to the code (type error in overlay).
type StaleError struct{ Msg string }

func (e *StaleError) Error() string { return "STALE-CONTRACT: " + e.Msg }

func (w *World) pkgOfDir(dir string) *packages.Package {
	for _, p := range w.Pkgs {
		if len(p.GoFiles) > 0 && filepath.Dir(p.GoFiles[0]) == dir {
			return p
		}
	}
	return nil
}

func (w *World) bindContracts() error {
	for _, cf := range w.CFiles {
		pkg := w.pkgOfDir(cf.Dir)
		if pkg == nil {
			return fmt.Errorf("no package for %s", cf.Dir)
		}
		// find overlay file AST
		var file *ast.File
		for i, f := range pkg.CompiledGoFiles {
			if filepath.Base(f) == "zz_govc_overlay.go" {
				file = pkg.Syntax[i]
			}
		}
		if file == nil {
			return fmt.Errorf("overlay of %s not loaded", cf.Dir)
		}
		decls := map[string]*ast.FuncDecl{}
		for _, d := range file.Decls {
			if fd, ok := d.(*ast.FuncDecl); ok {
				decls[fd.Name.Name] = fd
			}
		}
		for _, g := range cf.Ghosts {
			fd := decls[g.Name]
			if fd == nil {
				return fmt.Errorf("ghost %s missing", g.Name)
			}
			w.Ghosts[pkg.TypesInfo.Defs[fd.Name].(*types.Func)] = g.Name
			if g.Const {
				w.GhostConst[g.Name] = true
			}
		}
		for _, sp := range cf.Specs {
			fd := decls[sp.Name]
			obj := pkg.TypesInfo.Defs[fd.Name].(*types.Func)
			s := &SpecFn{Raw: sp, Pkg: pkg, Decl: fd, Obj: obj}
			w.Specs[obj] = s
			w.SpecByName[pkg.PkgPath+"."+sp.Name] = s
		}
		for _, rc := range cf.Contracts {
			fd := decls[rc.GenName]
			if fd == nil {
				return fmt.Errorf("generated function %s missing", rc.GenName)
			}
			c := &Contract{Raw: rc, Pkg: pkg, Decl: fd}
			for _, fl := range fd.Type.Params.List {
				for _, n := range fl.Names {
					c.Params = append(c.Params, pkg.TypesInfo.Defs[n].(*types.Var))
				}
			}
			// find the ssa function
			sp := w.SSAPkgs[pkg.PkgPath]
			var fn *ssa.Function
			if rc.Recv == "" {
				fn = sp.Func(rc.Name)
			} else {
				tname := strings.TrimPrefix(rc.Recv, "*")
				tobj := pkg.Types.Scope().Lookup(tname)
				if tobj == nil {
					return &StaleError{fmt.Sprintf("%s:%d: unknown receiver type %s", rc.File, rc.Line, tname)}
				}
				var T types.Type = tobj.Type()
				if strings.HasPrefix(rc.Recv, "*") {
					T = types.NewPointer(T)
				}
				if it, ok := T.Underlying().(*types.Interface); ok {
					// contract of an interface method
					var m *types.Func
					for i := 0; i < it.NumMethods(); i++ {
						if it.Method(i).Name() == rc.Name {
							m = it.Method(i)
						}
					}
					if m == nil {
						return &StaleError{fmt.Sprintf("%s:%d: interface %s has no method %s", rc.File, rc.Line, tname, rc.Name)}
					}
					msig := m.Type().(*types.Signature)
					c.IfaceSig = msig
					c.NIn = msig.Params().Len() + 1
					c.NRes = msig.Results().Len()
					c.IfaceName = "(" + typeKey(T) + ")." + rc.Name
					if err := w.collectClauses(c, pkg, fd, rc); err != nil {
						return err
					}
					w.IfaceContracts[c.IfaceName] = c
					w.ContractList = append(w.ContractList, c)
					continue
				}
				sel := w.Prog.MethodSets.MethodSet(T).Lookup(pkg.Types, rc.Name)
				if sel != nil {
					fn = w.Prog.MethodValue(sel)
				}
			}
			if fn == nil {
				return &StaleError{fmt.Sprintf("%s:%d: function %s not found in package", rc.File, rc.Line, rc.Header)}
			}
			c.Fn = fn
			// check signature agreement
			sig := fn.Signature
			nin := sig.Params().Len()
			if sig.Recv() != nil {
				nin++
			}
			c.NIn = nin
			c.NRes = sig.Results().Len()
			if len(c.Params) < nin+c.NRes {
				return &StaleError{fmt.Sprintf("%s:%d: contract header of %s declares %d parameters+results, function has %d", rc.File, rc.Line, rc.Name, len(c.Params), nin+c.NRes)}
			}
			k := 0
			chk := func(t types.Type) error {
				if !types.Identical(c.Params[k].Type(), t) {
					return &StaleError{fmt.Sprintf("%s:%d: contract header of %s: parameter %s has type %s, function has %s", rc.File, rc.Line, rc.Name, c.Params[k].Name(), c.Params[k].Type(), t)}
				}
				k++
				return nil
			}
			if sig.Recv() != nil {
				if err := chk(sig.Recv().Type()); err != nil {
					return err
				}
			}
			for i := 0; i < sig.Params().Len(); i++ {
				if err := chk(sig.Params().At(i).Type()); err != nil {
					return err
				}
			}
			for i := 0; i < sig.Results().Len(); i++ {
				if err := chk(sig.Results().At(i).Type()); err != nil {
					return err
				}
			}
			if err := w.collectClauses(c, pkg, fd, rc); err != nil {
				return err
			}
			w.Contracts[fn.String()] = c
			w.ContractList = append(w.ContractList, c)
		}
		for _, rl := range cf.Lemmas {
			fd := decls[rl.GenName]
			l := &Lemma{Raw: rl, Pkg: pkg, Decl: fd}
			for _, fl := range fd.Type.Params.List {
				for _, n := range fl.Names {
					l.Params = append(l.Params, pkg.TypesInfo.Defs[n].(*types.Var))
				}
			}
			for _, st := range fd.Body.List {
				as := st.(*ast.AssignStmt)
				call := as.Rhs[0].(*ast.CallExpr)
				idv, _ := constInt(pkg.TypesInfo, call.Args[0])
				if idv == 1000 {
					l.Concl = call.Args[1]
				} else {
					l.Hyps = append(l.Hyps, call.Args[1])
				}
			}
			w.Lemmas = append(w.Lemmas, l)
		}
	}
	return nil
}

func (w *World) collectClauses(c *Contract, pkg *packages.Package, fd *ast.FuncDecl, rc *RawContract) error {
	// collect clauses
	byId := map[int]*Clause{}
	for _, rcl := range rc.Clauses {
		cl := &Clause{Raw: rcl}
		byId[rcl.Id] = cl
		c.Clauses = append(c.Clauses, cl)
	}
	for _, st := range fd.Body.List {
		as, ok := st.(*ast.AssignStmt)
		if !ok {
			continue
		}
		call := as.Rhs[0].(*ast.CallExpr)
		fname := ""
		if id, ok := call.Fun.(*ast.Ident); ok {
			fname = id.Name
		}
		idv, _ := constInt(pkg.TypesInfo, call.Args[0])
		switch fname {
		case "govcClause", "govcTerm":
			if idv >= 9000 {
				c.SplitExprs = append(c.SplitExprs, call.Args[1])
				continue
			}
			byId[int(idv)].Expr = call.Args[1]
		case "govcGassign":
			cl := byId[int(idv)]
			cl.GTarget, cl.GValue, cl.GCond = call.Args[1], call.Args[2], call.Args[3]
		case "govcLoc":
			id := int(idv)
			whole := false
			if id < 0 {
				id = -id - 1
				whole = true
			}
			byId[id].Locs = append(byId[id].Locs, call.Args[1])
			byId[id].Whole = append(byId[id].Whole, whole)
		}
	}
	return nil
}

func constInt(info *types.Info, e ast.Expr) (int64, bool) {
	tv, ok := info.Types[e]
	if !ok || tv.Value == nil {
		return 0, false
	}
	s := tv.Value.ExactString()
	var v int64
	if _, err := fmt.Sscanf(s, "%d", &v); err != nil {
		return 0, false
	}
	return v, true
}

// funcByName finds an ssa function by its String() form.
func (w *World) funcByName(name string) *ssa.Function {
	for f := range w.AllFuncs {
		if f.String() == name {
			return f
		}
	}
	return nil
}
