package main

// Direct replay lifter: the verifier's counterexample (a model of the
// pre-state of one function) is turned into an in-package Go test that builds
// the arguments, calls the real function and evaluates the violated contract
// clause (the same Go expression, compiled from the overlay). The test is run
// with `go test -overlay`, nothing is written into the repository.

import (
	"bytes"
	"context"
	"encoding/json"
	"fmt"
	"go/ast"
	"go/printer"
	"go/token"
	"go/types"
	"os"
	"os/exec"
	"path/filepath"
	"regexp"
	"sort"
	"strconv"
	"strings"
	"time"
)

type replayVar struct {
	term string
	sort string
}

// tryReplay attempts to reproduce a failed postcondition on the real code.
func (w *World) tryReplay(run *checkRun, o *Obligation) (bool, string) {
	if o.Kind != "post" || o.Status != "sat" {
		return false, "no lifter for obligations of kind " + o.Kind + " (only postconditions with a model are replayed directly)"
	}
	var fr *FuncResult
	for _, r := range run.results {
		if r.Fn == o.Fn {
			fr = r
		}
	}
	if fr == nil || fr.Contract == nil || fr.Contract.Fn == nil {
		return false, "no function result for " + o.Fn
	}
	c := fr.Contract
	// which clause?
	var clause *Clause
	for _, cl := range c.Clauses {
		if cl.Raw.Kind == "ensures" && "post."+cl.Raw.Label == strings.TrimPrefix(o.Name[strings.Index(o.Name, "#")+1:], "") {
			clause = cl
		}
	}
	if clause == nil {
		// names may carry an ordinal suffix
		for _, cl := range c.Clauses {
			if cl.Raw.Kind == "ensures" && cl.Raw.Label != "" && strings.HasPrefix(o.Name[strings.Index(o.Name, "#")+1:], "post."+cl.Raw.Label) {
				clause = cl
			}
		}
	}
	if clause == nil {
		return false, "cannot identify the contract clause of " + o.Name
	}
	lift, err := w.buildReplay(fr, c, clause, o)
	if err != nil {
		return false, "replay not attempted: " + err.Error()
	}
	return lift.run(w)
}

type replayPlan struct {
	pkgDir  string
	pkgPath string
	src     string
	overlay string // overlay spec file content
	ovPath  string
	noTag   bool // run without the verif tag and contract overlays (packages that have no contracts)
}

var reVal = regexp.MustCompile(`\(\s*(\S.*?)\s+(#x[0-9a-fA-F]+|#b[01]+|true|false)\s*\)`)

// modelValues asks the solver for the values of the given terms in the model of o.
func (w *World) modelValues(fr *FuncResult, o *Obligation, terms []string) (map[string]string, error) {
	// rebuild the failing (sub)query and append get-value
	var sg *SubGoal
	if len(o.Subs) > 0 {
		// find the failing sub-goal: try each
		for _, s := range o.Subs {
			q := subQueryText(fr, o, s)
			q = strings.Replace(q, "(get-model)\n", "", 1)
			if out, _ := runZ3Text(q, 10); strings.HasPrefix(out, "sat") {
				sg = s
				break
			}
		}
		if sg == nil {
			return nil, fmt.Errorf("no sub-goal has a model within the replay budget")
		}
	} else {
		sg = &SubGoal{Prefix: o.Prefix, Cond: o.Cond, Goal: o.Goal, Extra: o.Extra}
	}
	q := subQueryText(fr, o, sg)
	q = strings.Replace(q, "(get-model)\n", "", 1)
	vals := map[string]string{}
	// query in chunks to keep error handling simple
	for i := 0; i < len(terms); i += 40 {
		j := i + 40
		if j > len(terms) {
			j = len(terms)
		}
		qq := q + "(get-value (" + strings.Join(terms[i:j], " ") + "))\n"
		out, err := runZ3Text(qq, 20)
		if err != nil || !strings.HasPrefix(out, "sat") {
			return nil, fmt.Errorf("solver did not return values: %s", truncate(out, 200))
		}
		// parse "((term value) (term value))" pairs: values are the last token of each pair
		body := out[strings.Index(out, "\n")+1:]
		k := i
		for _, m := range splitPairs(body) {
			if k < j {
				vals[terms[k]] = m
				k++
			}
		}
	}
	return vals, nil
}

// splitPairs extracts the value of each (term value) pair of a get-value answer.
func splitPairs(s string) []string {
	s = strings.TrimSpace(s)
	if len(s) < 2 {
		return nil
	}
	s = s[1 : len(s)-1] // outer parens
	var out []string
	depth := 0
	start := -1
	for i := 0; i < len(s); i++ {
		switch s[i] {
		case '(':
			if depth == 0 {
				start = i
			}
			depth++
		case ')':
			depth--
			if depth == 0 && start >= 0 {
				pair := s[start+1 : i]
				// value = last token or last parenthesised group
				pair = strings.TrimSpace(pair)
				var val string
				if pair[len(pair)-1] == ')' {
					d := 0
					k := len(pair) - 1
					for ; k >= 0; k-- {
						if pair[k] == ')' {
							d++
						} else if pair[k] == '(' {
							d--
							if d == 0 {
								break
							}
						}
					}
					val = pair[k:]
				} else {
					val = pair[strings.LastIndexAny(pair, " \n\t")+1:]
				}
				out = append(out, val)
				start = -1
			}
		}
	}
	return out
}

func runZ3Text(q string, secs int) (string, error) {
	f, err := os.CreateTemp(scratchRoot(), "govc-replay-*.smt2")
	if err != nil {
		return "", err
	}
	defer os.Remove(f.Name())
	f.WriteString(q)
	f.Close()
	ctx, cancel := context.WithTimeout(context.Background(), time.Duration(secs+2)*time.Second)
	defer cancel()
	cmd := exec.CommandContext(ctx, "z3-new", fmt.Sprintf("-T:%d", secs), f.Name())
	var out bytes.Buffer
	cmd.Stdout = &out
	cmd.Stderr = &out
	cmd.Run()
	return out.String(), nil
}

func bvToUint(v string) (uint64, bool) {
	if strings.HasPrefix(v, "#x") {
		u, err := strconv.ParseUint(v[2:], 16, 64)
		return u, err == nil
	}
	if strings.HasPrefix(v, "#b") {
		u, err := strconv.ParseUint(v[2:], 2, 64)
		return u, err == nil
	}
	return 0, false
}

// goLiteral renders a model value as a Go expression of type t.
func goLiteral(t types.Type, v string, q types.Qualifier) (string, bool) {
	ts := types.TypeString(t, q)
	switch {
	case isBool(t):
		if v == "true" || v == "false" {
			return v, true
		}
	case isInteger(t):
		u, ok := bvToUint(v)
		if !ok {
			return "", false
		}
		w := widthOf(t)
		if isSigned(t) {
			var s int64
			switch w {
			case 8:
				s = int64(int8(u))
			case 16:
				s = int64(int16(u))
			case 32:
				s = int64(int32(u))
			default:
				s = int64(u)
			}
			return fmt.Sprintf("%s(%d)", ts, s), true
		}
		return fmt.Sprintf("%s(%d)", ts, u), true
	}
	return "", false
}

func (w *World) buildReplay(fr *FuncResult, c *Contract, clause *Clause, o *Obligation) (*replayPlan, error) {
	fn := c.Fn
	pkg := c.Pkg
	qual := func(p *types.Package) string {
		if p == pkg.Types {
			return ""
		}
		return p.Name()
	}
	sig := fn.Signature
	// collect the model terms we need: parameter leaves and, for pointers to
	// structs, the scalar field leaves; byte-slice contents up to 32 bytes
	type slot struct {
		goExpr string // assignment target in the test
		t      types.Type
		term   string
	}
	var slots []slot
	var setup []string
	var terms []string
	paramNames := []string{}
	for _, p := range fn.Params {
		if n, ok := isOpaqueNamed(p.Type()); ok && n == "reflect.Value" {
			return nil, fmt.Errorf("parameter %s is a reflect.Value: the lifter cannot rebuild the message object it views from the model", p.Name())
		}
	}
	for i, p := range fn.Params {
		name := c.Params[i].Name()
		paramNames = append(paramNames, name)
		pt := p.Type()
		leafTerm := func(k int) string { return smtName(fmt.Sprintf("p!%s!%d", p.Name(), k)) }
		switch u := pt.Underlying().(type) {
		case *types.Basic:
			if isString(pt) {
				setup = append(setup, fmt.Sprintf("var %s %s", name, types.TypeString(pt, qual)))
				continue
			}
			setup = append(setup, fmt.Sprintf("var %s %s", name, types.TypeString(pt, qual)))
			slots = append(slots, slot{name, pt, leafTerm(0)})
		case *types.Pointer:
			st, ok := u.Elem().Underlying().(*types.Struct)
			if !ok {
				// pointer to a named scalar
				setup = append(setup, fmt.Sprintf("%s := new(%s)", name, types.TypeString(u.Elem(), qual)))
				if isInteger(u.Elem()) || isBool(u.Elem()) {
					hn := objHeapName(structKey(u.Elem()), "")
					slots = append(slots, slot{"*" + name, u.Elem(), sel(smtName(hn), leafTerm(0))})
				}
				continue
			}
			setup = append(setup, fmt.Sprintf("%s := new(%s)", name, types.TypeString(u.Elem(), qual)))
			for fi := 0; fi < st.NumFields(); fi++ {
				f := st.Field(fi)
				ft := f.Type()
				switch fu := ft.Underlying().(type) {
				case *types.Basic:
					if isInteger(ft) || isBool(ft) {
						hn := objHeapName(structKey(u.Elem()), f.Name())
						if fr.declaresHeap(hn) {
							slots = append(slots, slot{name + "." + f.Name(), ft, sel(smtName(hn), leafTerm(0))})
						}
					}
				case *types.Slice:
					if b, ok := fu.Elem().Underlying().(*types.Basic); ok && b.Kind() == types.Uint8 {
						base := objHeapName(structKey(u.Elem()), f.Name())
						if fr.declaresHeap(base + "#len") {
							lenT := sel(smtName(base+"#len"), leafTerm(0))
							aidT := sel(smtName(base+"#aid"), leafTerm(0))
							offT := sel(smtName(base+"#off"), leafTerm(0))
							slots = append(slots, slot{"@len:" + name + "." + f.Name(), types.Typ[types.Int], lenT})
							for bi := 0; bi < 8; bi++ {
								slots = append(slots, slot{fmt.Sprintf("@byte:%s.%s:%d", name, f.Name(), bi), types.Typ[types.Uint8],
									sel(sel("A!uint8!", aidT), app("bvadd", offT, bvLit(64, uint64(bi))))})
							}
						}
					}
				}
			}
		case *types.Struct:
			setup = append(setup, fmt.Sprintf("var %s %s", name, types.TypeString(pt, qual)))
			k := 0
			for fi := 0; fi < u.NumFields(); fi++ {
				f := u.Field(fi)
				n := len(layoutOf(f.Type()).Leaves)
				if n == 1 && (isInteger(f.Type()) || isBool(f.Type())) {
					slots = append(slots, slot{name + "." + f.Name(), f.Type(), leafTerm(k)})
				}
				k += n
			}
		case *types.Slice:
			if b, ok := u.Elem().Underlying().(*types.Basic); ok && b.Kind() == types.Uint8 {
				setup = append(setup, fmt.Sprintf("var %s %s", name, types.TypeString(pt, qual)))
				slots = append(slots, slot{"@len:" + name, types.Typ[types.Int], leafTerm(2)})
				for bi := 0; bi < 16; bi++ {
					slots = append(slots, slot{fmt.Sprintf("@byte:%s:%d", name, bi), types.Typ[types.Uint8],
						sel(sel("A!uint8!", leafTerm(0)), app("bvadd", leafTerm(1), bvLit(64, uint64(bi))))})
				}
			} else {
				return nil, fmt.Errorf("parameter %s of type %s is not liftable", name, pt)
			}
		default:
			return nil, fmt.Errorf("parameter %s of type %s is not liftable", name, pt)
		}
	}
	for _, s := range slots {
		terms = append(terms, s.term)
	}
	// make sure the byte heap is declared in the query if used
	vals := map[string]string{}
	if len(terms) > 0 {
		var err error
		vals, err = w.modelValues(fr, o, terms)
		if err != nil {
			return nil, err
		}
	}
	lens := map[string]int{}
	bytesOf := map[string]map[int]uint64{}
	var assigns []string
	for _, s := range slots {
		v, ok := vals[s.term]
		if !ok {
			continue
		}
		switch {
		case strings.HasPrefix(s.goExpr, "@len:"):
			u, _ := bvToUint(v)
			n := int(int64(u))
			if n < 0 || n > 64 {
				return nil, fmt.Errorf("model slice length %d outside the replay range", n)
			}
			lens[strings.TrimPrefix(s.goExpr, "@len:")] = n
		case strings.HasPrefix(s.goExpr, "@byte:"):
			parts := strings.Split(strings.TrimPrefix(s.goExpr, "@byte:"), ":")
			u, _ := bvToUint(v)
			idx, _ := strconv.Atoi(parts[1])
			if bytesOf[parts[0]] == nil {
				bytesOf[parts[0]] = map[int]uint64{}
			}
			bytesOf[parts[0]][idx] = u
		default:
			lit, ok := goLiteral(s.t, v, qual)
			if ok {
				assigns = append(assigns, fmt.Sprintf("%s = %s", s.goExpr, lit))
			}
		}
	}
	for name, n := range lens {
		var bs []string
		for i := 0; i < n; i++ {
			bs = append(bs, fmt.Sprintf("%d", bytesOf[name][i]))
		}
		assigns = append(assigns, fmt.Sprintf("%s = []byte{%s}", name, strings.Join(bs, ", ")))
	}
	// the clause as Go source, old(...) sub-expressions hoisted
	var olds []string
	exprSrc := w.clauseGo(pkg.Fset, clause.Expr, &olds)
	// call
	var resNames []string
	for i := 0; i < sig.Results().Len(); i++ {
		resNames = append(resNames, c.Params[c.NIn+i].Name())
	}
	call := ""
	args := paramNames
	if sig.Recv() != nil {
		call = fmt.Sprintf("%s.%s(%s)", args[0], fn.Name(), strings.Join(args[1:], ", "))
	} else {
		call = fmt.Sprintf("%s(%s)", fn.Name(), strings.Join(args, ", "))
	}
	if len(resNames) > 0 {
		call = strings.Join(resNames, ", ") + " := " + call
	}
	var b strings.Builder
	var body strings.Builder
	b.WriteString("//go:build verif && go1.18\n\npackage " + pkg.Types.Name() + "\n\n")
	defer func() {}()
	header := &b
	b2 := &body
	_ = header
	b2.WriteString("// Replay of a verifier counterexample for " + o.Name + "\n")
	b2.WriteString("func TestGovcReplay(govcT *testing.T) {\n")
	for _, s := range setup {
		body.WriteString("\t" + s + "\n")
	}
	for _, a := range assigns {
		body.WriteString("\t" + a + "\n")
	}
	for i, o := range olds {
		fmt.Fprintf(&body, "\tgovcOld%d := %s\n", i, o)
	}
	body.WriteString("\t" + call + "\n")
	for _, r := range resNames {
		body.WriteString("\t_ = " + r + "\n")
	}
	for _, p := range paramNames {
		body.WriteString("\t_ = " + p + "\n")
	}
	fmt.Fprintf(&body, "\tif !(%s) {\n\t\tgovcT.Fatalf(\"GOVC-REPRODUCED: clause [%s] of %s is false on the real code\")\n\t}\n}\n", exprSrc, clause.Raw.Label, strings.ReplaceAll(o.Fn, "\"", ""))
	// imports: testing plus every package of the target's import set that the body mentions
	imports := []string{"\"testing\""}
	for path, ip := range pkg.Imports {
		if regexp.MustCompile(`\b` + regexp.QuoteMeta(ip.Name) + `\.`).MatchString(body.String()) {
			imports = append(imports, fmt.Sprintf("%q", path))
		}
	}
	sort.Strings(imports)
	b.WriteString("import (\n\t" + strings.Join(imports, "\n\t") + "\n)\n\n")
	b.WriteString(body.String())
	dir := filepath.Dir(pkg.GoFiles[0])
	ov := ""
	ovPath := ""
	for p, src := range w.Overlays {
		if filepath.Dir(p) == dir {
			ov, ovPath = src, p
		}
	}
	// executable versions of the quantifier helpers
	ov = strings.Replace(ov, "func govcForall(lo, hi int, f func(int) bool) bool        { return true }", "func govcForall(lo, hi int, f func(int) bool) bool { for i := lo; i < hi; i++ { if !f(i) { return false } }; return true }", 1)
	ov = strings.Replace(ov, "func govcExists(lo, hi int, f func(int) bool) bool        { return true }", "func govcExists(lo, hi int, f func(int) bool) bool { for i := lo; i < hi; i++ { if f(i) { return true } }; return false }", 1)
	return &replayPlan{pkgDir: dir, pkgPath: pkg.PkgPath, src: b.String(), overlay: ov, ovPath: ovPath}, nil
}

func (fr *FuncResult) declaresHeap(name string) bool {
	n := smtName(name)
	for _, l := range fr.Prelude {
		if strings.HasPrefix(l, "(declare-const "+n+" ") {
			return true
		}
	}
	return false
}

// clauseGo prints a clause expression as Go, hoisting govcOld(e) into variables.
func (w *World) clauseGo(fset *token.FileSet, e ast.Expr, olds *[]string) string {
	var rewrite func(n ast.Expr) ast.Expr
	rewrite = func(n ast.Expr) ast.Expr {
		switch x := n.(type) {
		case *ast.CallExpr:
			if id, ok := x.Fun.(*ast.Ident); ok && id.Name == "govcOld" {
				var buf bytes.Buffer
				printer.Fprint(&buf, fset, x.Args[0])
				*olds = append(*olds, buf.String())
				return ast.NewIdent(fmt.Sprintf("govcOld%d", len(*olds)-1))
			}
			nc := *x
			nc.Args = nil
			for _, a := range x.Args {
				nc.Args = append(nc.Args, rewrite(a))
			}
			return &nc
		case *ast.BinaryExpr:
			nb := *x
			nb.X, nb.Y = rewrite(x.X), rewrite(x.Y)
			return &nb
		case *ast.UnaryExpr:
			nu := *x
			nu.X = rewrite(x.X)
			return &nu
		case *ast.ParenExpr:
			np := *x
			np.X = rewrite(x.X)
			return &np
		}
		return n
	}
	var buf bytes.Buffer
	printer.Fprint(&buf, fset, rewrite(e))
	return buf.String()
}

func (p *replayPlan) run(w *World) (bool, string) {
	work, err := os.MkdirTemp(scratchRoot(), "govc-replay-")
	if err != nil {
		return false, err.Error()
	}
	defer os.RemoveAll(work)
	testFile := filepath.Join(work, "zz_govc_replay_test.go")
	ovFile := filepath.Join(work, "zz_govc_overlay.go")
	os.WriteFile(testFile, []byte(p.src), 0o644)
	os.WriteFile(ovFile, []byte(p.overlay), 0o644)
	repl := map[string]string{filepath.Join(p.pkgDir, "zz_govc_replay_test.go"): testFile}
	if p.ovPath != "" {
		repl[p.ovPath] = ovFile
	}
	// the other verified packages' overlays are needed too when referenced
	for op, src := range w.Overlays {
		if p.noTag {
			break
		}
		if op == p.ovPath {
			continue
		}
		f := filepath.Join(work, strings.ReplaceAll(strings.TrimPrefix(op, "/"), "/", "_"))
		os.WriteFile(f, []byte(src), 0o644)
		repl[op] = f
	}
	ovJSON, _ := json.Marshal(map[string]interface{}{"Replace": repl})
	ovPath := filepath.Join(work, "ov.json")
	os.WriteFile(ovPath, ovJSON, 0o644)
	ctx, cancel := context.WithTimeout(context.Background(), 120*time.Second)
	defer cancel()
	tags := "verif"
	if p.noTag {
		tags = ""
	}
	cmd := exec.CommandContext(ctx, "go", "test", "-tags", tags, "-overlay", ovPath, "-vet=off", "-count=1", "-timeout", "60s", "-run", "TestGovcReplay$", ".")
	cmd.Dir = p.pkgDir
	cmd.Env = append(goEnv(), "GOCACHE="+filepath.Join(work, "gocache"))
	var out bytes.Buffer
	cmd.Stdout = &out
	cmd.Stderr = &out
	cmd.Run()
	text := out.String()
	report := "generated test:\n" + p.src + "\ngo test output:\n" + truncate(text, 3000)
	if strings.Contains(text, "GOVC-REPRODUCED") {
		return true, "the counterexample REPRODUCES on the real code.\n" + report
	}
	if strings.Contains(text, "panic:") && strings.Contains(text, "TestGovcReplay") {
		return true, "the real code panics on the counterexample.\n" + report
	}
	return false, "the counterexample did not reproduce (the model may rely on state the lifter cannot construct).\n" + report
}
