package main

import (
	"encoding/json"
	"flag"
	"fmt"
	"golang.org/x/tools/go/ssa"
	"os"
	"path/filepath"
	"sort"
	"strconv"
	"strings"
	"time"
)

type Baseline struct {
	Note       string              `json:"note"`
	Properties map[string][]string `json:"properties"` // property -> obligation names discharged on the pinned tree
}

type KnownFinding struct {
	Status     string `json:"status"`
	Id         string `json:"id"`
	Property   string `json:"property"`
	Commit     string `json:"commit,omitempty"`
	Obligation string `json:"obligation"`
	What       string `json:"what"`
	Witness    string `json:"witness,omitempty"`
	Why        string `json:"why_not_fixed,omitempty"`
	Line       string `json:"line,omitempty"`
}

type KnownFindings struct {
	Findings []KnownFinding `json:"findings"`
}

func verifDir() string {
	if d := os.Getenv("VERIF_DIR"); d != "" {
		return d
	}
	exe, err := os.Executable()
	if err == nil {
		return filepath.Dir(filepath.Dir(exe))
	}
	return "/verif"
}

func loadBaseline() *Baseline {
	b := &Baseline{Properties: map[string][]string{}}
	data, err := os.ReadFile(filepath.Join(verifDir(), "baseline_obligations.json"))
	if err == nil {
		json.Unmarshal(data, b)
	}
	return b
}

func loadKnown() *KnownFindings {
	k := &KnownFindings{}
	data, err := os.ReadFile(filepath.Join(verifDir(), "known_findings.json"))
	if err == nil {
		json.Unmarshal(data, k)
	}
	return k
}

func hasProp(props []string, p string) bool {
	for _, x := range props {
		if x == p {
			return true
		}
	}
	return false
}

func contractServes(c *Contract, p string) bool {
	if hasProp(c.Raw.Props, p) {
		return true
	}
	for _, cl := range c.Raw.Clauses {
		if hasProp(cl.Props, p) {
			return true
		}
	}
	return false
}

// callsTagged: the function calls one whose contract has a precondition tagged p
// (the obligation to establish it is generated in the caller's VC).
func (w *World) callsTagged(c *Contract, p string) bool {
	if c.Fn == nil {
		return false
	}
	for _, b := range c.Fn.Blocks {
		for _, instr := range b.Instrs {
			call, ok := instr.(ssa.CallInstruction)
			if !ok {
				continue
			}
			f := call.Common().StaticCallee()
			if f == nil {
				continue
			}
			if cc, ok := w.Contracts[f.String()]; ok {
				for _, cl := range cc.Raw.Clauses {
					if cl.Kind == "requires" && hasProp(cl.Props, p) {
						return true
					}
				}
			}
		}
	}
	return false
}

type checkRun struct {
	prop    string
	tier    string
	repo    string
	seed    int64
	results []*FuncResult
	items   []workItem
	outside []string
	trusted map[string]bool
	funcs   []string
	stale   string
	extra   []extraCheck
	notes   []string
	cross   *crossResult
}

// extraCheck: engines other than the VC generator contribute obligations through this hook.
type extraCheck func(w *World, run *checkRun)

// hasLayer: some clause of some contract is tagged with p (contract layer).
func (w *World) hasLayer(p string) bool {
	for _, c := range w.ContractList {
		for _, cl := range c.Raw.Clauses {
			if hasProp(cl.Props, p) {
				return true
			}
		}
	}
	return false
}

// gather generates the obligations of property p.
// Base pass: every function whose contract serves p is verified against the
// untagged clauses (the base contract) and the obligations tagged p are kept.
// Layer pass (only if some clause is tagged {p}): the same functions are
// verified again with the clauses tagged p added to all contracts; from this
// pass only the obligations that stem from tagged clauses, and frame
// obligations that do not exist in the base pass, are kept.
func gather(w *World, p string) *checkRun {
	run := &checkRun{prop: p, trusted: map[string]bool{}}
	passes := []string{""}
	if w.hasLayer(p) {
		passes = append(passes, p)
		run.notes = append(run.notes, "contract layer "+p+": clauses tagged {"+p+"} are verified in a second pass on top of the base contracts; base obligations are discharged without them")
	}
	baseNames := map[string]bool{}
	for _, layer := range passes {
		w.layer = layer
		for _, c := range w.ContractList {
			if !contractServes(c, p) && !(layer != "" && w.callsTagged(c, p)) {
				continue
			}
			if c.Fn == nil {
				continue // interface contracts are justified by subtype obligations
			}
			fr := w.verifyFunction(c)
			run.results = append(run.results, fr)
			if layer == "" {
				if !c.Raw.Trusted {
					run.funcs = append(run.funcs, fr.Fn)
				}
			}
			if fr.Outside != "" {
				msg := fr.Fn + ": " + fr.Outside
				dup := false
				for _, o := range run.outside {
					dup = dup || o == msg
				}
				if !dup {
					run.outside = append(run.outside, msg)
				}
			}
			for _, t := range fr.Trusted {
				run.trusted[t] = true
			}
			if c.Raw.Trusted {
				run.trusted["assumed contract on repository function "+fr.Fn] = true
			}
			for _, o := range fr.Obls {
				isFrame := o.Kind == "frame" || o.Kind == "loop-frame"
				if layer == "" {
					baseNames[o.Name] = true
					if hasProp(o.Props, p) && !hasProp(o.Props, layerMark) {
						run.items = append(run.items, workItem{fr, o})
					}
					continue
				}
				if hasProp(o.Props, p) && hasProp(o.Props, layerMark) || isFrame && !baseNames[o.Name] {
					run.items = append(run.items, workItem{fr, o})
				}
			}
		}
	}
	w.layer = ""
	for _, l := range w.Lemmas {
		if !hasProp(l.Raw.Props, p) {
			continue
		}
		fr := w.verifyLemma(l)
		run.results = append(run.results, fr)
		for _, t := range fr.Trusted {
			run.trusted[t] = true
		}
		if fr.Outside != "" {
			run.outside = append(run.outside, fr.Fn+": "+fr.Outside)
		}
		for _, o := range fr.Obls {
			run.items = append(run.items, workItem{fr, o})
		}
	}
	for _, pr := range w.subtypePairs() {
		if !contractServes(pr[0], p) {
			continue
		}
		fr := w.verifySubtype(pr[0], pr[1])
		run.results = append(run.results, fr)
		if fr.Outside != "" {
			run.outside = append(run.outside, fr.Fn+": "+fr.Outside)
		}
		for _, o := range fr.Obls {
			if hasProp(o.Props, p) {
				run.items = append(run.items, workItem{fr, o})
			}
		}
	}
	w.extraObligations(run)
	return run
}

func oblOK(o *Obligation) bool {
	if o.Expect == "sat" {
		return o.Status == "sat" || o.Status == "unknown" || o.Status == "timeout"
	}
	return o.Status == "unsat"
}

func cmdCheck(args []string) int {
	fs := flag.NewFlagSet("check", flag.ExitOnError)
	tier := fs.String("tier", "", "quick|thorough")
	repo := fs.String("repo", "/repo", "repository")
	writeBaseline := fs.Bool("write-baseline", false, "record the discharged obligations as the baseline of this property")
	if len(args) == 0 {
		fmt.Fprintln(os.Stderr, "usage: govc check <property> [--tier quick|thorough]")
		return 2
	}
	prop := args[0]
	fs.Parse(args[1:])
	if *tier == "" {
		*tier = os.Getenv("VERIF_TIER")
	}
	if *tier == "" {
		*tier = "quick"
	}
	seed, _ := strconv.ParseInt(os.Getenv("VERIF_SEED"), 10, 64)
	t0 := time.Now()
	timeoutMs := 30000 // undecided obligations cost this much; refutations and proofs are usually far quicker
	if *tier == "thorough" {
		timeoutMs = 120000
	}
	vdir := verifDir()
	if o := os.Getenv("VERIF_OUT"); o != "" {
		vdir = o // evidence and replay files of trial runs (seeded changes) go elsewhere
	}
	os.MkdirAll(filepath.Join(vdir, "evidence"), 0o755)
	os.MkdirAll(filepath.Join(vdir, "replays"), 0o755)
	base := loadBaseline()
	known := loadKnown()
	if old, _ := filepath.Glob(filepath.Join(vdir, "replays", prop+"-*.txt")); len(old) > 0 {
		for _, f := range old {
			os.Remove(f)
		}
	}

	activeLayer = prop
	w, err := loadWorld(*repo, true)
	var run *checkRun
	if err != nil {
		run = &checkRun{prop: prop, stale: err.Error(), trusted: map[string]bool{}}
	} else {
		run = gather(w, prop)
		dischargeAll(run.items, timeoutMs, 16)
		run.items = expandFailed(run.items, timeoutMs)
		if *tier == "thorough" {
			// second opinion: every SMT discharge is repeated by an independent solver on the unsliced query
			xr := crossCheck(run.items, 20000, 16)
			run.cross = &xr
		}
	}
	run.tier, run.repo, run.seed = *tier, *repo, seed

	// classify
	var failed []*Obligation
	byName := map[string]*Obligation{}
	discharged := 0
	nObl := 0
	backend := map[string]int{}
	solverS := 0.0
	covers, coversHit := 0, 0
	for _, it := range run.items {
		o := it.o
		byName[o.Name] = o
		solverS += o.Seconds
		if o.Expect == "sat" {
			covers++
			if o.Status == "sat" {
				coversHit++
			}
			if o.Status == "unsat" {
				failed = append(failed, o) // vacuous precondition
			}
			continue
		}
		if oblOK(o) {
			nObl++
			discharged++
			backend[o.Solver]++
		} else {
			failed = append(failed, o)
		}
	}
	// baseline obligations that disappeared or cannot be generated any more
	var missing []string
	for _, n := range base.Properties[prop] {
		if _, ok := byName[n]; !ok {
			missing = append(missing, n)
		}
	}
	if *writeBaseline {
		var names []string
		for _, it := range run.items {
			if it.o.Expect != "sat" && oblOK(it.o) {
				names = append(names, it.o.Name)
			}
		}
		sort.Strings(names)
		base.Properties[prop] = names
		base.Note = "obligations discharged on the pinned tree, by property; written by `govc check <id> --write-baseline`, never at check time"
		data, _ := json.MarshalIndent(base, "", " ")
		os.WriteFile(filepath.Join(verifDir(), "baseline_obligations.json"), data, 0o644)
		missing = nil
	}

	// known findings (open) of this property
	openByObl := map[string]KnownFinding{}
	for _, k := range known.Findings {
		if k.Property == prop && k.Status == "open" {
			openByObl[k.Obligation] = k
		}
	}

	violations := 0
	var vioLines []string
	report := func(o *Obligation, reason string) {
		rp := filepath.Join(vdir, "replays", fmt.Sprintf("%s-%d.txt", prop, violations+1))
		var b strings.Builder
		fmt.Fprintf(&b, "property: %s\nreason: %s\n", prop, reason)
		replayed := false
		if o != nil {
			fmt.Fprintf(&b, "obligation: %s\nkind: %s\nfunction: %s\nposition: %s\nstatus: %s (solver %s, %.2fs)\n", o.Name, o.Kind, o.Fn, o.Pos, o.Status, o.Solver, o.Seconds)
			if o.Status == "sat" && o.Kind == "regeneration" {
				fmt.Fprintf(&b, "\nthe repository's generator was run on the checked-in sources:\n%s\n", truncate(o.Model, 20000))
				replayed = true
			} else if o.Status == "sat" {
				fmt.Fprintf(&b, "\nverifier counterexample (model of the pre-state of %s):\n%s\n", o.Fn, truncate(o.Model, 20000))
				if w != nil && o.ReplaySrc != "" {
					ok, txt := (&replayPlan{pkgDir: w.PkgByPath[modPath].Dir, pkgPath: modPath, src: o.ReplaySrc}).run(w)
					b.WriteString("\nreplay on the real code (every instance of the schema contract is executed):\n" + txt + "\n")
					replayed = ok
				} else if w != nil {
					ok, txt := w.tryReplay(run, o)
					b.WriteString("\nreplay on the real code:\n" + txt + "\n")
					replayed = ok
				}
			} else if o.ReplaySrc != "" && w != nil {
				fmt.Fprintf(&b, "\nsolver output:\n%s\n", truncate(o.Output, 2000))
				ok, txt := (&replayPlan{pkgDir: w.PkgByPath[modPath].Dir, pkgPath: modPath, src: o.ReplaySrc}).run(w)
				b.WriteString("\nreplay on the real code (every instance of the schema contract is executed):\n" + txt + "\n")
				replayed = ok
			} else {
				fmt.Fprintf(&b, "\nundecided, not refuted: this obligation was discharged on the unchanged tree and no solver discharges it now.\nsolver output:\n%s\n", truncate(o.Output, 4000))
			}
		}
		os.WriteFile(rp, []byte(b.String()), 0o644)
		line := fmt.Sprintf("VIOLATION property=%s replay=%s", prop, rp)
		if !replayed {
			line += " no-failing-input-found"
		}
		vioLines = append(vioLines, line)
		violations++
	}

	if run.stale != "" {
		rp := filepath.Join(vdir, "replays", fmt.Sprintf("%s-stale.txt", prop))
		os.WriteFile(rp, []byte("property: "+prop+"\nreason: the contracts no longer bind to the code; every baseline obligation of this property is undischarged\n\n"+run.stale+"\n"), 0o644)
		vioLines = append(vioLines, fmt.Sprintf("VIOLATION property=%s replay=%s no-failing-input-found", prop, rp))
		violations++
		missing = nil // one violation for the whole property, not one per obligation that could not be generated
	}
	sort.Slice(failed, func(i, j int) bool { return failed[i].Name < failed[j].Name })
	var knownLines []string
	for _, o := range failed {
		if k, ok := openByObl[o.Name]; ok {
			knownLines = append(knownLines, fmt.Sprintf("KNOWN-FINDING: property=%s %s (%s): %s", prop, k.Id, o.Name, k.What))
			delete(openByObl, o.Name)
			continue
		}
		if o.Expect != "sat" {
			nObl++ // an obligation that should have been discharged
		}
		reason := "obligation not discharged"
		if o.Expect == "sat" {
			reason = "vacuity: the assumptions at this point are contradictory (cover expected sat, got unsat)"
		}
		report(o, reason)
	}
	// obligations of the baseline that can no longer be generated: one violation per function
	missByFn := map[string][]string{}
	var missFns []string
	for _, n := range missing {
		kind := ""
		fnName := n
		if i := strings.Index(n, "#"); i >= 0 {
			kind = n[i+1:]
			fnName = n[:i]
		}
		if strings.HasPrefix(kind, "bounds") || strings.HasPrefix(kind, "nil") || strings.HasPrefix(kind, "slice") || strings.HasPrefix(kind, "div0") ||
			strings.HasPrefix(kind, "pre@") || strings.HasPrefix(kind, "typeassert") || strings.HasPrefix(kind, "shift") || strings.HasPrefix(kind, "makeslice") || strings.HasPrefix(kind, "nilmap") ||
			strings.HasPrefix(kind, "frame") || strings.HasPrefix(kind, "loop-frame") || strings.HasPrefix(kind, "panic") {
			continue // safety and frame obligations follow the code: fewer of them is not a violation
		}
		if _, ok := openByObl[n]; ok {
			continue
		}
		if _, ok := missByFn[fnName]; !ok {
			missFns = append(missFns, fnName)
		}
		missByFn[fnName] = append(missByFn[fnName], n)
	}
	for _, fnName := range missFns {
		fnOut := ""
		for _, os_ := range run.outside {
			if strings.HasPrefix(os_, fnName+": ") {
				fnOut = os_
			}
		}
		names := missByFn[fnName]
		o := &Obligation{Name: names[0], Kind: "missing", Status: "not-generated", Fn: fnName,
			Output: fmt.Sprintf("%s\n%d obligations of the baseline are no longer generated for this function:\n  %s", fnOut, len(names), strings.Join(names, "\n  "))}
		report(o, "obligations discharged on the unchanged tree can no longer be generated (the function left the verified subset, or a function / contract clause no longer binds): "+fnOut)
	}
	// a function that had obligations in the baseline and is now outside the supported subset: none of its
	// obligations (of whatever kind) can be decided any more
	for _, os_ := range run.outside {
		fnName := os_
		if i := strings.Index(os_, ": "); i >= 0 {
			fnName = os_[:i]
		}
		if _, done := missByFn[fnName]; done {
			continue
		}
		had := 0
		for _, n := range missing {
			if strings.HasPrefix(n, fnName+"#") {
				had++
			}
		}
		if had == 0 {
			continue
		}
		o := &Obligation{Name: fnName + "#in-subset", Kind: "missing", Status: "not-generated", Fn: fnName, Output: os_}
		report(o, fmt.Sprintf("the function was verified on the unchanged tree (%d obligations for this property) and is now outside the supported subset: %s", had, os_))
	}
	// stale known findings: listed but the obligation now holds -> not printed

	for _, l := range knownLines {
		fmt.Println(l)
	}
	for _, l := range run.outside {
		fmt.Println("OUTSIDE-SUBSET " + l)
	}
	for _, l := range vioLines {
		fmt.Println(l)
	}

	// evidence
	var samples []interface{}
	for i, it := range run.items {
		if i%maxInt(1, len(run.items)/6) == 0 && len(samples) < 8 {
			samples = append(samples, map[string]interface{}{"obligation": it.o.Name, "kind": it.o.Kind, "status": it.o.Status, "solver": it.o.Solver,
				"solver_s": round3(it.o.Seconds), "smt_bytes": len(queryText(it.fr, it.o))})
		}
	}
	// the slowest obligations (watch list for solver-time regressions)
	slow := append([]workItem(nil), run.items...)
	sort.Slice(slow, func(i, j int) bool { return slow[i].o.Seconds > slow[j].o.Seconds })
	var slowest []interface{}
	for i := 0; i < len(slow) && i < 10; i++ {
		slowest = append(slowest, map[string]interface{}{"obligation": slow[i].o.Name, "solver": slow[i].o.Solver, "solver_s": round3(slow[i].o.Seconds)})
	}
	trusted := []string{}
	for t := range run.trusted {
		trusted = append(trusted, t)
	}
	sort.Strings(trusted)
	sort.Strings(run.funcs)
	known_ := []string{}
	known_ = append(known_, knownLines...)
	ev := map[string]interface{}{
		"property_id": prop, "tier": *tier, "seed": seed, "level": "proof",
		"coverage": map[string]interface{}{
			"obligations": nObl, "discharged": discharged,
			"checker_cmd":              fmt.Sprintf("bin/govc check %s --tier %s", prop, *tier),
			"trusted_base":             trusted,
			"functions_under_contract": nonNil(run.funcs),
			"by_backend":               backend,
			"solver_s":                 round3(solverS),
			"covers":                   map[string]int{"expected": covers, "hit": coversHit},
			"outside_subset":           nonNil(run.outside),
			"known_findings":           known_,
			"baseline_missing":         nonNil(missing),
			"samples":                  samples,
			"slowest":                  slowest,
			"cross_check":              crossEvidence(run.cross),
			"stand_ins":                run.standIns(),
			"notes":                    nonNil(run.notes),
			"explanation":              "every obligation is a verification condition generated from the go/ssa form of the function in /repo's working tree and its //@ contract; discharged = unsat of the negated VC by at least one of z3 4.8.12 / z3 5.1.0 / cvc5",
		},
		"assumptions": append(trusted, globalAssumptions...),
		"wall_s":      round3(time.Since(t0).Seconds()),
		"violations":  violations,
	}
	data, _ := json.MarshalIndent(ev, "", " ")
	os.WriteFile(filepath.Join(vdir, "evidence", prop+".json"), data, 0o644)
	if os.Getenv("VERIF_DEBUG") != "" {
		byFn := map[string]float64{}
		cnt := map[string]int{}
		for _, it := range run.items {
			byFn[it.o.Fn] += it.o.Seconds
			cnt[it.o.Fn]++
		}
		var fns []string
		for f := range byFn {
			fns = append(fns, f)
		}
		sort.Slice(fns, func(i, j int) bool { return byFn[fns[i]] > byFn[fns[j]] })
		for i, f := range fns {
			if i < 15 {
				fmt.Fprintf(os.Stderr, "  %8.1fs %5d  %s\n", byFn[f], cnt[f], f)
			}
		}
	}
	fmt.Printf("%s: %d obligations, %d discharged, %d known findings, %d violations, %d functions, %.1fs\n", prop, nObl, discharged, len(knownLines), violations, len(run.funcs), time.Since(t0).Seconds())
	if nObl == 0 && violations == 0 {
		fmt.Println("no obligations generated for this property: undecided")
		return 3
	}
	if violations > 0 {
		return 1
	}
	return 0
}

var globalAssumptions = []string{
	"machine integers are exact bit-vectors of their Go width (int = 64 bit); nothing is treated as a mathematical integer",
	"memory model: typed field-indexed heap, distinct allocations never alias, fewer than 2^46 allocations per run",
	"callee-fresh objects are modelled as unconstrained cells of the caller's pre-heap",
	"vacuity covers drop definitional axioms of recursive spec functions and of copy/append results",
	"termination of loops is proved by variants; termination of spec-function recursion is not checked mechanically",
}

func (run *checkRun) standIns() []string { return []string{} }

func nonNil(x []string) []string {
	if x == nil {
		return []string{}
	}
	return x
}

func maxInt(a, b int) int {
	if a > b {
		return a
	}
	return b
}

func round3(x float64) float64 { return float64(int(x*1000+0.5)) / 1000 }

// extraObligations: closed-formula engines (tables, footprints) hook in here.
func (w *World) extraObligations(run *checkRun) {
	switch run.prop {
	case "C08", "C09":
		fr := &FuncResult{Fn: "footprint"}
		run.results = append(run.results, fr)
		fp := w.footprintChecks()
		for _, f := range fp.reachable {
			run.funcs = append(run.funcs, f.String())
		}
		for _, gc := range fp.checks {
			if run.prop == "C09" && strings.HasPrefix(gc.name, "determinism.") {
				continue
			}
			o := w.groundObligation(run.prop, gc)
			o.Kind = "frame"
			o.Fn = "footprint"
			run.items = append(run.items, workItem{fr, o})
		}
		// the frame obligations of the entry points' own contracts: everything an entry point writes is one of its
		// arguments' objects (assigns clauses) or was allocated by the call - memory that is reachable only from
		// option values or captured by closures is covered here, not by the package-level sweep
		for _, name := range []string{modPath + ".Decode", modPath + ".DecodeChained", modPath + ".CheckIntegrity", modPath + ".DecodeHeader", modPath + ".DecodeHeaderAndFileID", "(*" + modPath + ".decoder).decode", modPath + ".Encode"} {
			c, ok := w.Contracts[name]
			if !ok || c.Fn == nil {
				continue
			}
			vfr := w.verifyFunction(c)
			run.results = append(run.results, vfr)
			if vfr.Outside != "" {
				run.outside = append(run.outside, vfr.Fn+": "+vfr.Outside)
			}
			for _, t := range vfr.Trusted {
				run.trusted[t] = true
			}
			for _, o := range vfr.Obls {
				if o.Kind == "frame" || o.Kind == "loop-frame" {
					o.Props = append(append([]string(nil), o.Props...), run.prop)
					run.items = append(run.items, workItem{vfr, o})
				}
			}
		}
		var ext []string
		for e := range fp.externals {
			ext = append(ext, e)
		}
		sort.Strings(ext)
		run.trusted["external callees on the decode/encode paths are assumed free of observable global state and safe for concurrent use: "+strings.Join(ext, ", ")] = true
		if run.prop == "C09" {
			run.trusted["disjoint-footprint (frame) rule and the Go memory model's DRF guarantee: calls whose write sets are disjoint and that read none of each other's writes are race free and equivalent to sequential execution; no schedule is enumerated"] = true
		}
	case "C20":
		w.stringerObligations(run)
		w.regenObligation(run)
	case "C03":
		w.routerObligations(run)
	case "C18":
		// every container that holds a message type with component fields expands it when routing
		fr := &FuncResult{Fn: "routers"}
		run.results = append(run.results, fr)
		for _, rt := range w.routerTypes() {
			for _, o := range w.routerExpandObligations(rt, run.prop) {
				run.items = append(run.items, workItem{fr, o})
			}
		}
		// lifetime of the accumulators ("since the start of the same file"): who touches the accumulator
		// variables, per function (the frame obligations of C08 restricted to the accumulators) - a function
		// that starts to reset or replace them mid-file shows up as a new accessor
		ffr := &FuncResult{Fn: "footprint"}
		run.results = append(run.results, ffr)
		for _, gc := range w.footprintChecks().checks {
			if strings.HasPrefix(gc.name, "frame.fit.accumu") {
				o := w.groundObligation(run.prop, gc)
				o.Kind = "frame"
				o.Fn = "footprint"
				run.items = append(run.items, workItem{ffr, o})
			}
		}
	case "C14":
		// dyncrc16 is specified completely: every function and method of the package has a contract, so a new way
		// of feeding the checksum cannot appear unverified
		fr := &FuncResult{Fn: "dyncrc16"}
		run.results = append(run.results, fr)
		var names []string
		for fn := range w.AllFuncs {
			if fn.Pkg == nil || fn.Pkg.Pkg.Path() != modPath+"/dyncrc16" || len(fn.Blocks) == 0 || fn.Synthetic != "" || fn.Name() == "init" || fn.Parent() != nil {
				continue
			}
			if strings.HasSuffix(w.Fset.Position(fn.Pos()).Filename, "zz_govc_overlay.go") {
				continue // the compiled form of the contracts themselves
			}
			names = append(names, fn.String())
		}
		sort.Strings(names)
		for _, n := range names {
			gc := groundCheck{name: "contract-coverage." + n, ok: true}
			if _, ok := w.Contracts[n]; !ok {
				gc.ok = false
				gc.why = n + " has no contract: the package is meant to be specified completely (a function that touches the checksum state outside the verified ones is outside the proof)"
			}
			o := w.groundObligation(run.prop, gc)
			o.Kind = "coverage"
			o.Fn = "dyncrc16"
			run.items = append(run.items, workItem{fr, o})
		}
	case "C16":
		fr := &FuncResult{Fn: "noninterference"}
		run.results = append(run.results, fr)
		checks, fns := w.nonintChecks()
		run.funcs = append(run.funcs, fns...)
		for _, gc := range checks {
			o := w.groundObligation(run.prop, gc)
			o.Kind = "dependence"
			o.Fn = "noninterference"
			run.items = append(run.items, workItem{fr, o})
		}
		run.notes = append(run.notes, fmt.Sprintf("dependence obligations: %d functions reachable from the decoding entry points; option locations: decoder.debug, decoder.opts.*, decoder.unknownFields, decoder.unknownMessages", len(fns)))
		run.trusted["the user-supplied Logger does not touch the library's state; reflect/binary/fmt callees do not read the option locations"] = true
	case "C05":
		fr := &FuncResult{Fn: "internal/types tables"}
		run.results = append(run.results, fr)
		for _, gc := range w.invalidTableChecks() {
			run.items = append(run.items, workItem{fr, w.groundObligation(run.prop, gc)})
		}
	case "C15":
		fr := &FuncResult{Fn: "profile tables"}
		run.results = append(run.results, fr)
		run.funcs = append(run.funcs, "profile tables: _fields, knownMsgNums, msgsTypes, newMesgFuncs, 101 message structs and constructors, 17 containers (closed formulas)")
		for _, gc := range w.tableChecks() {
			run.items = append(run.items, workItem{fr, w.groundObligation("C15", gc)})
		}
		for n := range w.initNotes {
			run.trusted[n] = true
		}
	}
}

// expandFailed replaces failed coarse obligations by their finer expansion.
func expandFailed(items []workItem, timeoutMs int) []workItem {
	var extra []workItem
	var out []workItem
	for _, it := range items {
		if it.o.Expand != nil && !oblOK(it.o) {
			for _, e := range it.o.Expand() {
				extra = append(extra, workItem{it.fr, e})
			}
			continue
		}
		out = append(out, it)
	}
	if len(extra) > 0 {
		dischargeAll(extra, timeoutMs, 16)
	}
	return append(out, extra...)
}

func crossEvidence(x *crossResult) interface{} {
	if x == nil {
		return "not run (thorough tier only): every SMT discharge repeated by a second solver on the unsliced query"
	}
	return map[string]interface{}{"obligations_rechecked": x.checked, "second_solver_agrees": x.agree, "second_solver_undecided": x.undecided, "contradictions": nonNil(x.contradictions)}
}
