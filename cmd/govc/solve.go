package main

import (
	"bytes"
	"context"
	"fmt"
	"os"
	"os/exec"
	"path/filepath"
	"regexp"
	"runtime"
	"sort"
	"strings"
	"sync"
	"time"
)

type Solver struct {
	Name string
	Args func(file string, timeoutMs int) []string
}

var solvers = []Solver{
	{"z3-new", func(f string, ms int) []string { return []string{"z3-new", fmt.Sprintf("-T:%d", (ms+999)/1000), f} }},
	{"z3", func(f string, ms int) []string { return []string{"z3", fmt.Sprintf("-T:%d", (ms+999)/1000), f} }},
	{"cvc5", func(f string, ms int) []string {
		return []string{"cvc5", "--produce-models", fmt.Sprintf("--tlimit=%d", ms), f}
	}},
}

func queryText(fr *FuncResult, o *Obligation) string {
	if len(o.Subs) > 0 {
		var b strings.Builder
		for i, sg := range o.Subs {
			fmt.Fprintf(&b, "; ---- sub-goal %d of %d\n", i+1, len(o.Subs))
			b.WriteString(subQueryText(fr, o, sg))
		}
		return b.String()
	}
	return subQueryText(fr, o, &SubGoal{Prefix: o.Prefix, Cond: o.Cond, Goal: o.Goal, Extra: o.Extra})
}

func subQueryText(fr *FuncResult, o *Obligation, sg *SubGoal) string {
	var b strings.Builder
	b.WriteString("(set-option :produce-models true)\n(set-logic ALL)\n")
	cover := o.Expect == "sat"
	for _, l := range fr.Prelude {
		if cover && strings.Contains(l, "(forall ") {
			continue // definitional axioms are dropped in satisfiability (vacuity) queries
		}
		b.WriteString(l)
		b.WriteByte('\n')
	}
	if !o.NoStatics {
		for _, l := range fr.Statics {
			b.WriteString(l)
			b.WriteByte('\n')
		}
	}
	var body []string
	if o.localSlice && !cover {
		body = sliceLocal(fr.Script[:sg.Prefix], sg)
	} else {
		body = sliceScript(fr.Script[:sg.Prefix], sg, cover)
	}
	for _, l := range body {
		b.WriteString(l)
		b.WriteByte('\n')
	}
	for _, l := range sg.Extra {
		b.WriteString(l)
		b.WriteByte('\n')
	}
	fmt.Fprintf(&b, "(assert %s)\n", sg.Cond)
	fmt.Fprintf(&b, "(assert (not %s))\n", sg.Goal)
	b.WriteString("(check-sat)\n(get-model)\n")
	return b.String()
}

type solveResult struct {
	status string // unsat sat unknown timeout error
	out    string
	secs   float64
	solver string
}

// solverSlots bounds the number of solver processes that run at the same time to the number of logical CPUs (the three-solver race used to start up to 48 on 16): a
// query's budget then measures the solver, not the scheduler (under three-fold oversubscription a 3 s proof
// was seen to take 30 s and time out).
var solverSlots = make(chan struct{}, runtime.NumCPU())

func runSolver(s Solver, file string, timeoutMs int) solveResult {
	return runSolverCtx(context.Background(), s, file, timeoutMs)
}

// runSolverCtx: as runSolver; the run is abandoned (and its slot freed) when parent is cancelled - the losers of
// a race do not keep computing once one solver has decided the query.
func runSolverCtx(parent context.Context, s Solver, file string, timeoutMs int) solveResult {
	select {
	case solverSlots <- struct{}{}:
	case <-parent.Done():
		return solveResult{status: "timeout", solver: s.Name, out: "abandoned: another solver decided the query"}
	}
	defer func() { <-solverSlots }()
	args := s.Args(file, timeoutMs)
	ctx, cancel := context.WithTimeout(parent, time.Duration(timeoutMs+2000)*time.Millisecond)
	defer cancel()
	cmd := exec.CommandContext(ctx, args[0], args[1:]...)
	var out bytes.Buffer
	cmd.Stdout = &out
	cmd.Stderr = &out
	t0 := time.Now()
	cmd.Run()
	secs := time.Since(t0).Seconds()
	text := out.String()
	first := strings.TrimSpace(strings.SplitN(text, "\n", 2)[0])
	// solver warnings (z3: "WARNING: 'if' cannot be used in patterns") precede the answer
	for _, ln := range strings.Split(text, "\n") {
		if t := strings.TrimSpace(ln); t != "" && !strings.HasPrefix(t, "WARNING:") {
			first = t
			break
		}
	}
	r := solveResult{out: text, secs: secs, solver: s.Name}
	switch first {
	case "unsat", "sat", "unknown":
		r.status = first
	case "timeout":
		r.status = "timeout"
	default:
		if ctx.Err() != nil {
			r.status = "timeout"
		} else {
			r.status = "error"
		}
	}
	return r
}

// discharge decides one obligation: z3-new first with a short budget, then the
// other two in parallel with the full budget.
func discharge(fr *FuncResult, o *Obligation, dir string, timeoutMs int, idx int) {
	if o.Solver == "syntactic" || o.Status == "unsat" && o.Solver != "" {
		return
	}
	if o.TimeoutMs > timeoutMs {
		timeoutMs = o.TimeoutMs
	}
	if len(o.Subs) > 0 {
		t0 := time.Now()
		o.Status = "unsat"
		o.Solver = ""
		for k, sg := range o.Subs {
			tmp := &Obligation{Name: o.Name, Prefix: sg.Prefix, Cond: sg.Cond, Goal: sg.Goal, Extra: sg.Extra, Expect: o.Expect}
			discharge(fr, tmp, dir, timeoutMs, idx*64+k+1000000)
			if o.Solver == "" || tmp.Status != "unsat" {
				o.Solver = tmp.Solver
			}
			if tmp.Status != "unsat" {
				o.Status, o.Model, o.Output = tmp.Status, tmp.Model, fmt.Sprintf("sub-goal %d of %d:\n%s", k+1, len(o.Subs), tmp.Output)
				break
			}
		}
		o.Seconds = time.Since(t0).Seconds()
		return
	}
	if o.Expect != "sat" && !o.noLocal {
		// tier 1: local slice, z3-new only, short budget
		o.localSlice = true
		q1 := queryText(fr, o)
		o.localSlice = false
		f1 := filepath.Join(dir, fmt.Sprintf("q%06d_l.smt2", idx))
		if os.WriteFile(f1, []byte(q1), 0o644) == nil {
			b1 := timeoutMs
			if b1 > 3000 {
				b1 = 3000
			}
			t1 := time.Now()
			r1 := runSolver(solvers[0], f1, b1)
			os.Remove(f1)
			if r1.status == "unsat" {
				o.Status, o.Solver, o.Seconds, o.Output = "unsat", "z3-new(local)", time.Since(t1).Seconds(), r1.out
				return
			}
		}
	}
	q := queryText(fr, o)
	if len(q) > 8<<20 {
		o.Status = "toolarge"
		return
	}
	file := filepath.Join(dir, fmt.Sprintf("q%06d.smt2", idx))
	if err := os.WriteFile(file, []byte(q), 0o644); err != nil {
		o.Status = "error"
		o.Output = err.Error()
		return
	}
	defer os.Remove(file)
	if o.Expect == "sat" && timeoutMs > 3000 {
		timeoutMs = 3000
	}
	first := timeoutMs
	if first > 5000 {
		first = 5000
	}
	t0 := time.Now()
	r := runSolver(solvers[0], file, first)
	final := r
	var tentative *solveResult
	if r.status != "sat" && r.status != "unsat" {
		ch := make(chan solveResult, 3)
		var wg sync.WaitGroup
		rctx, rcancel := context.WithCancel(context.Background())
		defer rcancel()
		for _, s := range solvers {
			if s.Name == "z3-new" && first == timeoutMs {
				continue
			}
			wg.Add(1)
			go func(s Solver) {
				defer wg.Done()
				ch <- runSolverCtx(rctx, s, file, timeoutMs)
			}(s)
		}
		go func() { wg.Wait(); close(ch) }()
		for rr := range ch {
			if rr.status == "sat" && rr.solver == "z3" {
				// z3 4.8.12 has answered sat on quantified queries that z3 5.1 and cvc5 both refute
				// (see DESIGN.md 7.7a): its models are only used when no other solver decides
				r2 := rr
				tentative = &r2
				continue
			}
			if rr.status == "sat" || rr.status == "unsat" {
				final = rr
				tentative = nil
				break
			}
			if final.status != "sat" && final.status != "unsat" {
				if rr.status == "unknown" || final.status == "error" {
					final = rr
				}
			}
		}
	}
	if tentative != nil && final.status != "sat" && final.status != "unsat" {
		final = *tentative
	}
	if kd := os.Getenv("GOVC_KEEPQ"); kd != "" && (final.status != o.Expect || time.Since(t0).Seconds() > 10) {
		os.WriteFile(filepath.Join(kd, regexp.MustCompile(`[^A-Za-z0-9_.-]+`).ReplaceAllString(o.Name, "_")+fmt.Sprintf("_%d.smt2", idx)), []byte(q), 0o644)
	}
	o.Status = final.status
	o.Solver = final.solver
	// the deciding solver's own run time (waiting for a free slot is not solver time)
	o.Seconds = final.secs
	if o.Seconds == 0 {
		o.Seconds = time.Since(t0).Seconds()
	}
	o.Output = final.out
	if final.status == "sat" {
		o.Model = final.out
	}
}

// dischargeAll runs obligations on a worker pool.
func dischargeAll(items []workItem, timeoutMs, workers int) {
	dir, err := os.MkdirTemp(scratchRoot(), "govc-q-")
	if err != nil {
		panic(err)
	}
	defer os.RemoveAll(dir)
	// expand multi-goal obligations into independent sub-queries
	type unit struct {
		fr     *FuncResult
		o      *Obligation // the query actually run
		parent *Obligation
		k      int
	}
	var units []unit
	for _, it := range items {
		o := it.o
		if o.Solver == "syntactic" || o.Solver == "ground" || o.Kind == "regeneration" || o.Kind == "dispatch" {
			continue // decided when generated
		}
		if len(o.Subs) > 1 && o.Batch != "" {
			// many small goals over one context: one incremental solver run
			units = append(units, unit{it.fr, o, nil, -1})
			continue
		}
		if len(o.Subs) > 1 {
			for k, sg := range o.Subs {
				tmp := &Obligation{Name: o.Name, Prefix: sg.Prefix, Cond: sg.Cond, Goal: sg.Goal, Extra: sg.Extra, Expect: o.Expect, NoStatics: o.NoStatics, TimeoutMs: o.TimeoutMs}
				units = append(units, unit{it.fr, tmp, o, k})
			}
			continue
		}
		units = append(units, unit{it.fr, o, nil, 0})
	}
	var wg sync.WaitGroup
	ch := make(chan int)
	for w := 0; w < workers; w++ {
		wg.Add(1)
		go func() {
			defer wg.Done()
			for i := range ch {
				if units[i].k == -1 {
					dischargeIncremental(units[i].fr, units[i].o, dir, timeoutMs, i)
					continue
				}
				discharge(units[i].fr, units[i].o, dir, timeoutMs, i)
			}
		}()
	}
	for i := range units {
		ch <- i
	}
	close(ch)
	wg.Wait()
	// aggregate
	agg := map[*Obligation][]unit{}
	for _, u := range units {
		if u.parent != nil {
			agg[u.parent] = append(agg[u.parent], u)
		}
	}
	for p, us := range agg {
		p.Status, p.Solver, p.Seconds = "unsat", "", 0
		for _, u := range us {
			if u.o.Seconds > p.Seconds {
				p.Seconds = u.o.Seconds
			}
			if p.Solver == "" {
				p.Solver = u.o.Solver
			}
			if u.o.Status != "unsat" && p.Status == "unsat" {
				p.Status, p.Solver, p.Model = u.o.Status, u.o.Solver, u.o.Model
				lab := ""
				if u.k < len(p.SubLabels) {
					lab = " (" + p.SubLabels[u.k] + ")"
				}
				p.Output = fmt.Sprintf("sub-goal %d of %d%s:\n%s", u.k+1, len(us), lab, u.o.Output)
			}
		}
	}
}

type workItem struct {
	fr *FuncResult
	o  *Obligation
}

func scratchRoot() string {
	if d := os.Getenv("VERIF_SCRATCH"); d != "" {
		os.MkdirAll(d, 0o755)
		return d
	}
	return "/var/tmp"
}

// sliceScript keeps every plain assumption, and of the definitional lines
// "(assert (= sym term))" and quantified array axioms only those whose defined
// symbol is (transitively) referenced.  Dropping assumptions is always sound.
var reArrayAxiom = regexp.MustCompile(`^\(assert \(forall \(\((\S+) \(_ BitVec 64\)\)\) \(! \(= \(select (\S+) (\S+)\) `)

func isUbiquitous(sym string) bool {
	return strings.HasPrefix(sym, "p!") || sym == "alloc0" || strings.HasPrefix(sym, "al!") || strings.HasPrefix(sym, "alloc!") ||
		strings.HasPrefix(sym, "bc!") || strings.HasPrefix(sym, "c!") || strings.HasPrefix(sym, "(") || isSMTKeyword(sym)
}

var smtKeywords = map[string]bool{"assert": true, "and": true, "or": true, "not": true, "ite": true, "select": true, "store": true, "forall": true, "exists": true,
	"let": true, "true": true, "false": true, "as": true, "const": true, "Array": true, "BitVec": true, "_": true, "concat": true, "extract": true,
	"zero_extend": true, "sign_extend": true, "distinct": true, "pattern": true, "Bool": true}

func isSMTKeyword(s string) bool {
	return smtKeywords[s] || strings.HasPrefix(s, "bv") || strings.HasPrefix(s, "fp.") || s == "RNE" || s == "RTZ" || s == "to_fp"
}

// sliceLocal is the aggressive first-tier slice: definitions by need, and only
// those assumptions that mention a (non-ubiquitous) symbol the goal depends on,
// for two rounds.  Dropping assumptions is sound; if the goal is not proved
// with this slice the full slice is tried.
func sliceLocal(lines []string, o *SubGoal) []string {
	type cls struct {
		def  string
		syms []string
	}
	info := make([]cls, len(lines))
	for i, l := range lines {
		c := cls{syms: smtSymbols(l)}
		if strings.HasPrefix(l, "(assert (= ") {
			rest := l[len("(assert (= "):]
			if j := strings.IndexByte(rest, ' '); j > 0 && rest[0] != '(' {
				sym := rest[:j]
				if strings.ContainsAny(sym, "!") && !strings.HasPrefix(sym, "p!") {
					c.def = sym
				}
			}
		}
		info[i] = c
	}
	relevant := map[string]bool{}
	add := func(text string) {
		for _, s := range smtSymbols(text) {
			relevant[s] = true
		}
	}
	add(o.Goal)
	add(o.Cond)
	for _, e := range o.Extra {
		add(e)
	}
	included := make([]bool, len(lines))
	closeDefs := func() {
		for changed := true; changed; {
			changed = false
			for i, c := range info {
				if included[i] || c.def == "" || !relevant[c.def] {
					continue
				}
				included[i] = true
				changed = true
				for _, s := range c.syms {
					relevant[s] = true
				}
			}
		}
	}
	closeDefs()
	for round := 0; round < 2; round++ {
		var newSyms []string
		for i, c := range info {
			if included[i] || c.def != "" {
				continue
			}
			hit := false
			for _, s := range c.syms {
				if relevant[s] && !isUbiquitous(s) {
					hit = true
					break
				}
			}
			if hit {
				included[i] = true
				newSyms = append(newSyms, c.syms...)
			}
		}
		for _, s := range newSyms {
			relevant[s] = true
		}
		closeDefs()
	}
	var out []string
	for i, l := range lines {
		if included[i] {
			out = append(out, l)
		}
	}
	return out
}

func sliceScript(lines []string, o *SubGoal, cover bool) []string {
	type cls struct {
		def   string
		axiom bool
		syms  []string
	}
	info := make([]cls, len(lines))
	relevant := map[string]bool{}
	add := func(text string) {
		for _, s := range smtSymbols(text) {
			relevant[s] = true
		}
	}
	add(o.Goal)
	add(o.Cond)
	for _, e := range o.Extra {
		add(e)
	}
	for i, l := range lines {
		c := cls{}
		switch {
		case reArrayAxiom.MatchString(l):
			// (assert (forall ((i!N S)) (! (= (select ARR i!N) ...: pointwise definition of the fresh array ARR
			m := reArrayAxiom.FindStringSubmatch(l)
			c.axiom = true
			c.def = m[2]
		case strings.HasPrefix(l, "(assert (= "):
			rest := l[len("(assert (= "):]
			if j := strings.IndexByte(rest, ' '); j > 0 && rest[0] != '(' {
				sym := rest[:j]
				if strings.ContainsAny(sym, "!") && !strings.HasPrefix(sym, "p!") {
					c.def = sym
				}
			}
		}
		if c.def == "" && !c.axiom {
			add(l)
		} else {
			c.syms = smtSymbols(l)
		}
		info[i] = c
	}
	included := make([]bool, len(lines))
	for changed := true; changed; {
		changed = false
		for i, c := range info {
			if included[i] || (c.def == "" && !c.axiom) {
				continue
			}
			if c.def == "" || relevant[c.def] {
				included[i] = true
				changed = true
				for _, s := range c.syms {
					relevant[s] = true
				}
			}
		}
	}
	var out []string
	for i, l := range lines {
		c := info[i]
		if c.def != "" || c.axiom {
			if !included[i] {
				continue
			}
		}
		if cover && strings.Contains(l, "(forall ") {
			continue
		}
		out = append(out, l)
	}
	return out
}

// smtSymbols lists the identifiers occurring in an SMT-LIB text.
func smtSymbols(text string) []string {
	var out []string
	i := 0
	for i < len(text) {
		c := text[i]
		switch {
		case c == '|':
			j := i + 1
			for j < len(text) && text[j] != '|' {
				j++
			}
			out = append(out, text[i:min(j+1, len(text))])
			i = j + 1
		case c >= 'a' && c <= 'z' || c >= 'A' && c <= 'Z' || c == '_' || c == '!' || c == '$' || c == '.':
			j := i
			for j < len(text) {
				d := text[j]
				if d >= 'a' && d <= 'z' || d >= 'A' && d <= 'Z' || d >= '0' && d <= '9' || d == '_' || d == '!' || d == '$' || d == '.' || d == '-' {
					j++
				} else {
					break
				}
			}
			out = append(out, text[i:j])
			i = j
		default:
			i++
		}
	}
	return out
}

// dischargeBatches decides groups of single-goal obligations that share their
// context in one incremental z3 run (push/pop); anything not unsat there is
// left for the individual path (which also produces models).
func dischargeBatches(items []workItem, dir string, timeoutMs, workers int) {
	groups := map[string][]int{}
	var keys []string
	for i, it := range items {
		o := it.o
		if o.Batch == "" || len(o.Subs) != 1 || o.Solver == "syntactic" {
			continue
		}
		k := o.Batch
		if _, ok := groups[k]; !ok {
			keys = append(keys, k)
		}
		groups[k] = append(groups[k], i)
	}
	var wg sync.WaitGroup
	ch := make(chan string)
	for w := 0; w < workers; w++ {
		wg.Add(1)
		go func() {
			defer wg.Done()
			for k := range ch {
				idxs := groups[k]
				fr := items[idxs[0]].fr
				var b strings.Builder
				b.WriteString("(set-logic ALL)\n")
				for _, l := range fr.Prelude {
					b.WriteString(l)
					b.WriteByte('\n')
				}
				// common script prefix: the smallest prefix (all obligations of a batch share it)
				prefix := items[idxs[0]].o.Subs[0].Prefix
				for _, i := range idxs {
					if p := items[i].o.Subs[0].Prefix; p < prefix {
						prefix = p
					}
				}
				for _, l := range fr.Script[:prefix] {
					b.WriteString(l)
					b.WriteByte('\n')
				}
				for _, i := range idxs {
					o := items[i].o
					sg := o.Subs[0]
					b.WriteString("(push 1)\n")
					if !o.NoStatics {
						for _, l := range fr.Statics {
							b.WriteString(l)
							b.WriteByte('\n')
						}
					}
					for _, l := range fr.Script[prefix:sg.Prefix] {
						b.WriteString(l)
						b.WriteByte('\n')
					}
					for _, l := range sg.Extra {
						b.WriteString(l)
						b.WriteByte('\n')
					}
					fmt.Fprintf(&b, "(assert %s)\n(assert (not %s))\n(check-sat)\n(pop 1)\n", sg.Cond, sg.Goal)
				}
				file := filepath.Join(dir, fmt.Sprintf("batch%d.smt2", idxs[0]))
				os.WriteFile(file, []byte(b.String()), 0o644)
				t0 := time.Now()
				ctx, cancel := context.WithTimeout(context.Background(), time.Duration(timeoutMs*len(idxs)/4+5000)*time.Millisecond)
				cmd := exec.CommandContext(ctx, "z3-new", fmt.Sprintf("-t:%d", timeoutMs), file)
				var out bytes.Buffer
				cmd.Stdout = &out
				cmd.Stderr = &out
				cmd.Run()
				cancel()
				os.Remove(file)
				lines := strings.Split(strings.TrimSpace(out.String()), "\n")
				per := time.Since(t0).Seconds() / float64(len(idxs))
				if len(lines) == len(idxs) {
					for n, i := range idxs {
						if strings.TrimSpace(lines[n]) == "unsat" {
							items[i].o.Status, items[i].o.Solver, items[i].o.Seconds = "unsat", "z3-new(batch)", per
						}
					}
				}
			}
		}()
	}
	for _, k := range keys {
		ch <- k
	}
	close(ch)
	wg.Wait()
}

// dischargeIncremental decides all sub-goals of one obligation in a single
// incremental z3 run (push/pop per sub-goal); a sub-goal that is not unsat
// there is re-run on its own (all solvers, with model).
func dischargeIncremental(fr *FuncResult, o *Obligation, dir string, timeoutMs int, idx int) {
	t0 := time.Now()
	prefix := o.Subs[0].Prefix
	for _, sg := range o.Subs {
		if sg.Prefix < prefix {
			prefix = sg.Prefix
		}
	}
	var b strings.Builder
	b.WriteString("(set-logic ALL)\n")
	for _, l := range fr.Prelude {
		b.WriteString(l)
		b.WriteByte('\n')
	}
	if !o.NoStatics {
		for _, l := range fr.Statics {
			b.WriteString(l)
			b.WriteByte('\n')
		}
	}
	for _, l := range fr.Script[:prefix] {
		b.WriteString(l)
		b.WriteByte('\n')
	}
	for _, sg := range o.Subs {
		b.WriteString("(push 1)\n")
		for _, l := range fr.Script[prefix:sg.Prefix] {
			b.WriteString(l)
			b.WriteByte('\n')
		}
		for _, l := range sg.Extra {
			b.WriteString(l)
			b.WriteByte('\n')
		}
		fmt.Fprintf(&b, "(assert %s)\n(assert (not %s))\n(check-sat)\n(pop 1)\n", sg.Cond, sg.Goal)
	}
	file := filepath.Join(dir, fmt.Sprintf("inc%06d.smt2", idx))
	os.WriteFile(file, []byte(b.String()), 0o644)
	defer os.Remove(file)
	budget := timeoutMs/1000*len(o.Subs)/8 + 30
	ctx, cancel := context.WithTimeout(context.Background(), time.Duration(budget)*time.Second)
	cmd := exec.CommandContext(ctx, "z3-new", fmt.Sprintf("-t:%d", timeoutMs), file)
	var out bytes.Buffer
	cmd.Stdout = &out
	cmd.Stderr = &out
	cmd.Run()
	cancel()
	lines := strings.Split(strings.TrimSpace(out.String()), "\n")
	o.Status, o.Solver = "unsat", "z3-new(incremental)"
	bad := -1
	if len(lines) != len(o.Subs) {
		bad = 0
		for k, l := range lines {
			if strings.TrimSpace(l) != "unsat" {
				bad = k
				break
			}
			bad = k + 1
		}
		if bad >= len(o.Subs) {
			bad = len(o.Subs) - 1
		}
	} else {
		for k, l := range lines {
			if strings.TrimSpace(l) != "unsat" {
				bad = k
				break
			}
		}
	}
	if bad >= 0 {
		sg := o.Subs[bad]
		tmp := &Obligation{Name: o.Name, Prefix: sg.Prefix, Cond: sg.Cond, Goal: sg.Goal, Extra: sg.Extra, Expect: o.Expect, NoStatics: o.NoStatics, TimeoutMs: o.TimeoutMs}
		discharge(fr, tmp, dir, timeoutMs, idx*1000+bad)
		if tmp.Status != "unsat" {
			o.Status, o.Solver, o.Model = tmp.Status, tmp.Solver, tmp.Model
			o.Output = fmt.Sprintf("sub-goal %d of %d (%s):\n%s", bad+1, len(o.Subs), truncate(sg.Cond, 200), tmp.Output)
		} else {
			// the incremental run was inconclusive for this sub-goal only; check the rest individually
			for k := bad + 1; k < len(o.Subs) && o.Status == "unsat"; k++ {
				sg := o.Subs[k]
				t2 := &Obligation{Name: o.Name, Prefix: sg.Prefix, Cond: sg.Cond, Goal: sg.Goal, Extra: sg.Extra, Expect: o.Expect, NoStatics: o.NoStatics}
				discharge(fr, t2, dir, timeoutMs, idx*1000+k)
				if t2.Status != "unsat" {
					o.Status, o.Solver, o.Model, o.Output = t2.Status, t2.Solver, t2.Model, fmt.Sprintf("sub-goal %d of %d:\n%s", k+1, len(o.Subs), t2.Output)
				}
			}
		}
	}
	o.Seconds = time.Since(t0).Seconds()
}

// crossCheck (thorough tier): every obligation that was discharged by one SMT
// solver is given to a second, independent solver (z3 4.8 for goals decided by
// z3 5.1, and the other way round; cvc5 if both were involved) on the full,
// unsliced query. The outcome is evidence about the discharge, not about the
// property: agreement, second solver undecided, or contradiction (second
// solver reports a model). Contradictions are returned for the report.
type crossResult struct {
	checked, agree, undecided int
	contradictions            []string
}

func crossCheck(items []workItem, budgetMs int, workers int) crossResult {
	dir, err := os.MkdirTemp(scratchRoot(), "govc-x-")
	if err != nil {
		return crossResult{}
	}
	defer os.RemoveAll(dir)
	type job struct {
		fr *FuncResult
		o  *Obligation
		q  string
		nm string
	}
	var jobs []job
	for _, it := range items {
		o := it.o
		if o.Status != "unsat" || o.Expect == "sat" || o.Solver == "syntactic" || o.Solver == "ground" || o.Kind == "regeneration" || o.Kind == "dispatch" {
			continue
		}
		if len(o.Subs) > 0 {
			for k, sg := range o.Subs {
				tmp := &Obligation{Name: o.Name, Prefix: sg.Prefix, Cond: sg.Cond, Goal: sg.Goal, Extra: sg.Extra, Expect: o.Expect, NoStatics: o.NoStatics}
				jobs = append(jobs, job{it.fr, o, queryText(it.fr, tmp), fmt.Sprintf("%s (sub-goal %d)", o.Name, k+1)})
			}
			continue
		}
		jobs = append(jobs, job{it.fr, o, queryText(it.fr, o), o.Name})
	}
	var mu sync.Mutex
	res := crossResult{}
	var wg sync.WaitGroup
	ch := make(chan int)
	for w := 0; w < workers; w++ {
		wg.Add(1)
		go func() {
			defer wg.Done()
			for i := range ch {
				j := jobs[i]
				second := solvers[1] // z3 4.8
				if strings.HasPrefix(j.o.Solver, "z3") && !strings.HasPrefix(j.o.Solver, "z3-new") {
					second = solvers[0]
				}
				file := filepath.Join(dir, fmt.Sprintf("x%06d.smt2", i))
				if len(j.q) > 8<<20 || os.WriteFile(file, []byte(j.q), 0o644) != nil {
					continue
				}
				r := runSolver(second, file, budgetMs)
				if r.status != "unsat" && r.status != "sat" {
					r = runSolver(solvers[2], file, budgetMs) // cvc5
				}
				mu.Lock()
				res.checked++
				switch r.status {
				case "unsat":
					res.agree++
				case "sat":
					// a model from the second solver on a quantified query: ask the others about the same full query
					var views []string
					for _, s3 := range solvers {
						if s3.Name == r.solver {
							continue
						}
						os.WriteFile(file, []byte(j.q), 0o644)
						r3 := runSolver(s3, file, budgetMs)
						os.Remove(file)
						views = append(views, s3.Name+": "+r3.status)
					}
					if os.Getenv("VERIF_DEBUG") != "" {
						os.WriteFile(filepath.Join(scratchRoot(), fmt.Sprintf("govc-contradiction-%d.smt2", i)), []byte(j.q), 0o644)
					}
					res.contradictions = append(res.contradictions, fmt.Sprintf("%s: discharged by %s; on the full query %s reports a model; %s", j.nm, j.o.Solver, r.solver, strings.Join(views, ", ")))
				default:
					res.undecided++
				}
				mu.Unlock()
				os.Remove(file)
			}
		}()
	}
	for i := range jobs {
		ch <- i
	}
	close(ch)
	wg.Wait()
	sort.Strings(res.contradictions)
	return res
}
