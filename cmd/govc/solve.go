package main

import (
	"bytes"
	"context"
	"fmt"
	"os"
	"os/exec"
	"path/filepath"
	"strings"
	"sync"
	"time"
)

type Solver struct {
	Name string
	Args func(file string, timeoutMs int) []string
}

var solvers = []Solver{
	{"z3-new", func(f string, ms int) []string { return []string{"z3-new", fmt.Sprintf("-T:%d", (ms+999)/1000), f} }},
	{"z3", func(f string, ms int) []string { return []string{"z3", fmt.Sprintf("-T:%d", (ms+999)/1000), f} }},
	{"cvc5", func(f string, ms int) []string {
		return []string{"cvc5", "--produce-models", fmt.Sprintf("--tlimit=%d", ms), f}
	}},
}

func queryText(fr *FuncResult, o *Obligation) string {
	var b strings.Builder
	b.WriteString("(set-option :produce-models true)\n(set-logic ALL)\n")
	cover := o.Expect == "sat"
	for _, l := range fr.Prelude {
		if cover && strings.Contains(l, "(forall ") {
			continue // definitional axioms are dropped in satisfiability (vacuity) queries
		}
		b.WriteString(l)
		b.WriteByte('\n')
	}
	for _, l := range fr.Script[:o.Prefix] {
		if cover && strings.Contains(l, "(forall ") {
			continue
		}
		b.WriteString(l)
		b.WriteByte('\n')
	}
	for _, l := range o.Extra {
		b.WriteString(l)
		b.WriteByte('\n')
	}
	fmt.Fprintf(&b, "(assert %s)\n", o.Cond)
	fmt.Fprintf(&b, "(assert (not %s))\n", o.Goal)
	b.WriteString("(check-sat)\n(get-model)\n")
	return b.String()
}

type solveResult struct {
	status string // unsat sat unknown timeout error
	out    string
	secs   float64
	solver string
}

func runSolver(s Solver, file string, timeoutMs int) solveResult {
	args := s.Args(file, timeoutMs)
	ctx, cancel := context.WithTimeout(context.Background(), time.Duration(timeoutMs+2000)*time.Millisecond)
	defer cancel()
	cmd := exec.CommandContext(ctx, args[0], args[1:]...)
	var out bytes.Buffer
	cmd.Stdout = &out
	cmd.Stderr = &out
	t0 := time.Now()
	cmd.Run()
	secs := time.Since(t0).Seconds()
	text := out.String()
	first := strings.TrimSpace(strings.SplitN(text, "\n", 2)[0])
	r := solveResult{out: text, secs: secs, solver: s.Name}
	switch first {
	case "unsat", "sat", "unknown":
		r.status = first
	case "timeout":
		r.status = "timeout"
	default:
		if ctx.Err() != nil {
			r.status = "timeout"
		} else {
			r.status = "error"
		}
	}
	return r
}

// discharge decides one obligation: z3-new first with a short budget, then the
// other two in parallel with the full budget.
func discharge(fr *FuncResult, o *Obligation, dir string, timeoutMs int, idx int) {
	if o.Solver == "syntactic" {
		return
	}
	q := queryText(fr, o)
	if len(q) > 8<<20 {
		o.Status = "toolarge"
		return
	}
	file := filepath.Join(dir, fmt.Sprintf("q%06d.smt2", idx))
	if err := os.WriteFile(file, []byte(q), 0o644); err != nil {
		o.Status = "error"
		o.Output = err.Error()
		return
	}
	defer os.Remove(file)
	if o.Expect == "sat" && timeoutMs > 3000 {
		timeoutMs = 3000
	}
	first := timeoutMs
	if first > 1000 {
		first = 1000
	}
	t0 := time.Now()
	r := runSolver(solvers[0], file, first)
	final := r
	if r.status != "sat" && r.status != "unsat" {
		ch := make(chan solveResult, 3)
		var wg sync.WaitGroup
		for _, s := range solvers {
			if s.Name == "z3-new" && first == timeoutMs {
				continue
			}
			wg.Add(1)
			go func(s Solver) {
				defer wg.Done()
				ch <- runSolver(s, file, timeoutMs)
			}(s)
		}
		go func() { wg.Wait(); close(ch) }()
		for rr := range ch {
			if rr.status == "sat" || rr.status == "unsat" {
				final = rr
				break
			}
			if final.status != "sat" && final.status != "unsat" {
				if rr.status == "unknown" || final.status == "error" {
					final = rr
				}
			}
		}
	}
	o.Status = final.status
	o.Solver = final.solver
	o.Seconds = time.Since(t0).Seconds()
	o.Output = final.out
	if final.status == "sat" {
		o.Model = final.out
	}
}

// dischargeAll runs obligations on a worker pool.
func dischargeAll(items []workItem, timeoutMs, workers int) {
	dir, err := os.MkdirTemp(scratchRoot(), "govc-q-")
	if err != nil {
		panic(err)
	}
	defer os.RemoveAll(dir)
	var wg sync.WaitGroup
	ch := make(chan int)
	for w := 0; w < workers; w++ {
		wg.Add(1)
		go func() {
			defer wg.Done()
			for i := range ch {
				discharge(items[i].fr, items[i].o, dir, timeoutMs, i)
			}
		}()
	}
	for i := range items {
		ch <- i
	}
	close(ch)
	wg.Wait()
}

type workItem struct {
	fr *FuncResult
	o  *Obligation
}

func scratchRoot() string {
	if d := os.Getenv("VERIF_SCRATCH"); d != "" {
		os.MkdirAll(d, 0o755)
		return d
	}
	return "/var/tmp"
}
