package main

// Assumed contracts for the output side: io.Writer, bytes.Buffer and
// encoding/binary.Write.
//
// Ghost state (the same symbols as `ghost func wpos(w io.Writer) int` and
// `ghost func outb(w io.Writer, k int) byte` in the contract files):
//   Z!wpos[key]     number of bytes accepted so far by the writer object key
//   Z!outb[key][k]  byte k of what was written
// A *bytes.Buffer is a writer keyed by its own address (the data word of the
// interface that holds it), it never fails and Bytes()/Len() expose exactly
// what was written.

import (
	"fmt"
	"go/types"

	"golang.org/x/tools/go/ssa"
)

const writerAssumption = "io.Writer model: Write(p) accepts n <= len(p) bytes in order and appends them to the writer's output; err == nil iff n == len(p); the writer does not touch library state; outputs are shorter than 2^40 bytes. bytes.Buffer: Write never fails; Bytes() and Len() return exactly the bytes written (no reads are interleaved in this code)"

const binaryWriteAssumption = "encoding/binary.Write(w, order, v): for fixed-size v (integers, byte arrays, structs of those) produces the bytes of v's fields in order, multi-byte integers in the given byte order, and hands them to w in one Write; for a []byte the bytes themselves; values of other dynamic types: an unspecified number of unspecified bytes or an error"

func (vc *VC) wKeyOf(v Val) string {
	if _, ok := v.T.Underlying().(*types.Interface); ok {
		return v.L[1]
	}
	return v.L[0]
}

func (vc *VC) getWpos(st *State, key string) string { return vc.getGhost(st, "wpos", key, sBV64) }

func (vc *VC) outRow(st *State, key string) (string, string, string) {
	hn := ghostHeapName("outb")
	hs := arrSort(sBV64, arrSort(sBV64, sBV8))
	vc.ghostSorts[hn] = hs
	h := vc.heapTerm(st, hn, hs)
	return hn, hs, h
}

// appendBytes appends the given byte terms to the output of key.
func (vc *VC) appendBytes(st *State, key string, bs []string) {
	pos := vc.define("wp", sBV64, vc.getWpos(st, key))
	vc.assume(st.cond, and(app("bvsle", bvLit(64, 0), pos), app("bvslt", pos, bvLit(64, 1<<40))))
	hn, hs, h := vc.outRow(st, key)
	row := sel(h, key)
	for i, b := range bs {
		row = sto(row, app("bvadd", pos, bvLit(64, uint64(i))), b)
	}
	vc.setHeap(st, hn, hs, sto(h, key, row))
	vc.setGhost(st, "wpos", key, sBV64, app("bvadd", pos, bvLit(64, uint64(len(bs)))))
	vc.dirty[hn] = true
	vc.dirty[ghostHeapName("wpos")] = true
}

// appendSlice appends the first n bytes of byte slice p to the output of key.
func (vc *VC) appendSlice(st *State, key string, p Val, n string) {
	pos := vc.define("wp", sBV64, vc.getWpos(st, key))
	vc.assume(st.cond, and(app("bvsle", bvLit(64, 0), pos), app("bvslt", pos, bvLit(64, 1<<40))))
	hn, hs, h := vc.outRow(st, key)
	old := vc.define("wro", arrSort(sBV64, sBV8), sel(h, key))
	na := vc.freshConst("wra", arrSort(sBV64, sBV8))
	eh := vc.heapTerm(st, elemHeapName(elemKey(types.Typ[types.Uint8]), ""), arrSort(sBV64, arrSort(sBV64, sBV8)))
	src := vc.define("wrs", arrSort(sBV64, sBV8), sel(eh, p.L[0]))
	q := vc.fresh("i")
	inr := and(app("bvsle", pos, q), app("bvslt", q, app("bvadd", pos, n)))
	vc.assume("true", fmt.Sprintf("(forall ((%s %s)) (! (and (= (select %s %s) %s) %s) :pattern ((select %s %s))))", q, sBV64, na, q,
		ite(inr, sel(src, app("bvadd", p.L[1], app("bvsub", q, pos))), sel(old, q)), rangeEquiv(q, pos, n), na, q))
	vc.setHeap(st, hn, hs, sto(h, key, na))
	vc.setGhost(st, "wpos", key, sBV64, app("bvadd", pos, n))
	vc.dirty[hn] = true
	vc.dirty[ghostHeapName("wpos")] = true
}

// isBufferWriter: the writer operand is statically a *bytes.Buffer.
func isBufferWriter(v ssa.Value) bool {
	if mi, ok := v.(*ssa.MakeInterface); ok {
		v = mi.X
	}
	p, ok := v.Type().Underlying().(*types.Pointer)
	if !ok {
		return false
	}
	n, ok := p.Elem().(*types.Named)
	return ok && n.Obj().Pkg() != nil && n.Obj().Pkg().Path() == "bytes" && n.Obj().Name() == "Buffer"
}

// scalarBytes: the bytes of a fixed-size value of type t (leaves ls), most
// significant first, or ok=false.
func (vc *VC) fixedBytesBE(t types.Type, ls []string) ([][]string, bool) {
	switch u := t.Underlying().(type) {
	case *types.Basic:
		if u.Info()&(types.IsInteger|types.IsBoolean) == 0 {
			if u.Kind() == types.Float32 || u.Kind() == types.Float64 {
				return nil, false // floats are not written by the functions under contract
			}
			return nil, false
		}
		if u.Info()&types.IsBoolean != 0 {
			return [][]string{{ite(ls[0], bvLit(8, 1), bvLit(8, 0))}}, true
		}
		w := widthOf(t)
		var bs []string
		for i := w/8 - 1; i >= 0; i-- {
			if w == 8 {
				bs = append(bs, ls[0])
			} else {
				bs = append(bs, fmt.Sprintf("((_ extract %d %d) %s)", 8*i+7, 8*i, ls[0]))
			}
		}
		return [][]string{bs}, true
	case *types.Array:
		if b, ok := u.Elem().Underlying().(*types.Basic); ok && b.Kind() == types.Uint8 && u.Len() <= 16 {
			var out [][]string
			for i := int64(0); i < u.Len(); i++ {
				out = append(out, []string{sel(ls[0], bvLit(64, uint64(i)))})
			}
			return out, true
		}
	case *types.Struct:
		var out [][]string
		k := 0
		for i := 0; i < u.NumFields(); i++ {
			ft := u.Field(i).Type()
			n := len(layoutOf(ft).Leaves)
			part, ok := vc.fixedBytesBE(ft, ls[k:k+n])
			if !ok {
				return nil, false
			}
			out = append(out, part...)
			k += n
		}
		return out, true
	}
	return nil, false
}

func init() {
	et := types.Universe.Lookup("error").Type()
	// (io.Writer).Write(p)
	externTable["(io.Writer).Write"] = func(vc *VC, fr *Frame, st *State, call *ssa.CallCommon, args []Val, rt types.Type) Val {
		vc.trusted[writerAssumption] = true
		w, p := args[0], args[1]
		n := vc.freshConst("wr_n", sBV64)
		err := freshVal(vc, st, et, "wr_err")
		vc.assume(st.cond, and(app("bvsle", bvLit(64, 0), n), app("bvsle", n, p.L[2]), eq(eq(err.L[0], bvLit(64, 0)), eq(n, p.L[2]))))
		vc.readerErrNotSentinel(st, err)
		vc.appendSlice(st, vc.wKeyOf(w), p, n)
		return Val{T: rt, L: append([]string{n}, err.L...)}
	}
	externEffectTable["(io.Writer).Write"] = func(vc *VC, cc *ssa.CallCommon) []locTarget {
		return []locTarget{{name: ghostHeapName("wpos"), sort: arrSort(sBV64, sBV64), whole: true}, {name: ghostHeapName("outb"), sort: arrSort(sBV64, arrSort(sBV64, sBV8)), whole: true}}
	}
	externTable["(*bytes.Buffer).Write"] = func(vc *VC, fr *Frame, st *State, call *ssa.CallCommon, args []Val, rt types.Type) Val {
		vc.trusted[writerAssumption] = true
		b, p := args[0], args[1]
		vc.appendSlice(st, b.L[0], p, p.L[2])
		return Val{T: rt, L: []string{p.L[2], bvLit(64, 0), bvLit(64, 0)}}
	}
	externEffectTable["(*bytes.Buffer).Write"] = externEffectTable["(io.Writer).Write"]
	externTable["(*bytes.Buffer).Len"] = func(vc *VC, fr *Frame, st *State, call *ssa.CallCommon, args []Val, rt types.Type) Val {
		vc.trusted[writerAssumption] = true
		pos := vc.getWpos(st, args[0].L[0])
		vc.assume(st.cond, and(app("bvsle", bvLit(64, 0), pos), app("bvslt", pos, bvLit(64, 1<<40))))
		return Val{T: rt, L: []string{pos}}
	}
	externTable["(*bytes.Buffer).Bytes"] = func(vc *VC, fr *Frame, st *State, call *ssa.CallCommon, args []Val, rt types.Type) Val {
		vc.trusted[writerAssumption] = true
		key := args[0].L[0]
		pos := vc.define("wp", sBV64, vc.getWpos(st, key))
		vc.assume(st.cond, and(app("bvsle", bvLit(64, 0), pos), app("bvslt", pos, bvLit(64, 1<<40))))
		_, _, h := vc.outRow(st, key)
		// a slice over a backing array that holds the bytes written so far
		ref := vc.allocRef(st)
		aid := vc.define("aid", sBV64, aidOf(ref, 0))
		vc.freshKeys[aid] = true
		hn := elemHeapName(elemKey(types.Typ[types.Uint8]), "")
		hs := arrSort(sBV64, arrSort(sBV64, sBV8))
		eh := vc.heapTerm(st, hn, hs)
		vc.setHeap(st, hn, hs, sto(eh, aid, sel(h, key)))
		return Val{T: rt, L: []string{aid, bvLit(64, 0), pos, pos}}
	}
	// encoding/binary.Write(w, order, v)
	externTable["encoding/binary.Write"] = func(vc *VC, fr *Frame, st *State, call *ssa.CallCommon, args []Val, rt types.Type) Val {
		vc.trusted[writerAssumption] = true
		vc.trusted[binaryWriteAssumption] = true
		w, order := args[0], args[1]
		key := vc.wKeyOf(w)
		buffer := isBufferWriter(call.Args[0])
		leTag := bvLit(64, uint64(vc.w.tags.tagNamed("encoding/binary.littleEndian")))
		beTag := bvLit(64, uint64(vc.w.tags.tagNamed("encoding/binary.bigEndian")))
		err := freshVal(vc, st, et, "bw_err")
		vc.readerErrNotSentinel(st, err)
		okv := eq(err.L[0], bvLit(64, 0))
		// statically typed operand?
		var static types.Type
		var sval Val
		if mi, ok := call.Args[2].(*ssa.MakeInterface); ok {
			static = mi.X.Type()
			sval = vc.value(fr, mi.X)
		}
		if static != nil {
			if slt, ok := static.Underlying().(*types.Slice); ok {
				if b, ok := slt.Elem().Underlying().(*types.Basic); ok && b.Kind() == types.Uint8 {
					n := sval.L[2]
					if buffer {
						vc.assume(st.cond, okv)
					} else {
						n = vc.freshConst("bw_n", sBV64)
						vc.assume(st.cond, and(app("bvsle", bvLit(64, 0), n), app("bvsle", n, sval.L[2]), eq(okv, eq(n, sval.L[2]))))
					}
					vc.appendSlice(st, key, sval, n)
					return Val{T: rt, L: err.L}
				}
			}
			if parts, ok := vc.fixedBytesBE(static, sval.L); ok {
				vc.oblige(st, "pre@binary.ByteOrder", "known", or(eq(order.L[0], leTag), eq(order.L[0], beTag)), call.Pos(), vc.safetyProps)
				var bs []string
				for _, part := range parts {
					for i := range part {
						if len(part) == 1 {
							bs = append(bs, part[0])
						} else {
							// little-endian: least significant byte first
							bs = append(bs, ite(eq(order.L[0], leTag), part[len(part)-1-i], part[i]))
						}
					}
				}
				if buffer {
					vc.assume(st.cond, okv)
					vc.appendBytes(st, key, bs)
					return Val{T: rt, L: err.L}
				}
				// an arbitrary writer may fail: all bytes are accepted iff err == nil, otherwise a prefix
				before := st.clone()
				vc.appendBytes(st, key, bs)
				n := vc.freshConst("bw_n", sBV64)
				posB := vc.getWpos(before, key)
				vc.assume(st.cond, and(app("bvsle", bvLit(64, 0), n), app("bvsle", n, bvLit(64, uint64(len(bs)))), eq(okv, eq(n, bvLit(64, uint64(len(bs)))))))
				vc.setGhost(st, "wpos", key, sBV64, app("bvadd", posB, n))
				return Val{T: rt, L: err.L}
			}
		}
		// dynamically typed value: as many bytes as the dynamic type is wide (fixed-size scalars), unspecified
		// content here; other dynamic types: an unspecified number of bytes or an error
		n := vc.freshConst("bw_n", sBV64)
		vc.assume(st.cond, and(app("bvsle", bvLit(64, 0), n), app("bvslt", n, bvLit(64, 1<<16))))
		if len(args[2].L) == 2 {
			sz := vc.binSizeTerm(args[2].L[0])
			vc.assume(st.cond, imp(and(okv, app("bvugt", sz, bvLit(64, 0))), eq(n, sz)))
		}
		pos := vc.define("wp", sBV64, vc.getWpos(st, key))
		vc.assume(st.cond, and(app("bvsle", bvLit(64, 0), pos), app("bvslt", pos, bvLit(64, 1<<40))))
		hn, hs, h := vc.outRow(st, key)
		old := vc.define("wro", arrSort(sBV64, sBV8), sel(h, key))
		na := vc.freshConst("wra", arrSort(sBV64, sBV8))
		q := vc.fresh("i")
		vc.assume("true", fmt.Sprintf("(forall ((%s %s)) (! (=> (bvslt %s %s) (= (select %s %s) (select %s %s))) :pattern ((select %s %s))))", q, sBV64, q, pos, na, q, old, q, na, q))
		if len(args[2].L) == 2 {
			// a boxed []byte goes out as it is
			bt := types.NewSlice(types.Universe.Lookup("byte").Type())
			isBytes := eq(args[2].L[0], bvLit(64, uint64(vc.w.tags.tag(bt))))
			sl := vc.unbox(st, args[2], bt)
			vc.assume(st.cond, imp(and(okv, isBytes), eq(n, sl.L[2])))
			ehn := elemHeapName(elemKey(bt.Elem()), "")
			row := sel(vc.heapTerm(st, ehn, arrSort(sBV64, arrSort(sBV64, sBV8))), sl.L[0])
			q2 := vc.fresh("i")
			vc.assume(st.cond, imp(and(okv, isBytes), fmt.Sprintf("(forall ((%s %s)) (! (=> (and (bvsle %s %s) (bvslt %s %s)) (= (select %s (bvadd %s %s)) (select %s (bvadd %s %s)))) :pattern ((select %s (bvadd %s %s)))))",
				q2, sBV64, bvLit(64, 0), q2, q2, sl.L[2], na, pos, q2, row, sl.L[1], q2, na, pos, q2)))
		}
		vc.setHeap(st, hn, hs, sto(h, key, na))
		vc.setGhost(st, "wpos", key, sBV64, app("bvadd", pos, n))
		vc.dirty[hn] = true
		vc.dirty[ghostHeapName("wpos")] = true
		return Val{T: rt, L: err.L}
	}
	externEffectTable["encoding/binary.Write"] = externEffectTable["(io.Writer).Write"]
	// sort.Sort(x) where x is a slice type of the repository: the elements afterwards are a rearrangement of
	// the elements before (every new element is one of the old ones at a position given by one index function
	// for all leaves; that the function is a bijection and the result ordered is not modelled)
	externTable["sort.Sort"] = func(vc *VC, fr *Frame, st *State, call *ssa.CallCommon, args []Val, rt types.Type) Val {
		mi, ok := call.Args[0].(*ssa.MakeInterface)
		if !ok {
			vc.unsupported("sort.Sort of a value whose static type is not known")
		}
		slt, ok := mi.X.Type().Underlying().(*types.Slice)
		if !ok {
			vc.unsupported("sort.Sort of a non-slice type")
		}
		vc.trusted["sort.Sort rearranges the slice through the type's own Len/Swap (every element afterwards is one of the elements before, same length); that the result is a permutation in the full sense and sorted by Less is not modelled"] = true
		sv := vc.value(fr, mi.X)
		et := slt.Elem()
		pf := vc.fresh("sortperm")
		vc.declareFun(pf, []string{sBV64}, sBV64)
		lo, hi := sv.L[1], app("bvadd", sv.L[1], sv.L[2])
		q := vc.fresh("i")
		inr := and(app("bvsle", lo, q), app("bvslt", q, hi))
		vc.assume("true", fmt.Sprintf("(forall ((%s %s)) (! (=> %s (and (bvsle %s (%s %s)) (bvslt (%s %s) %s))) :pattern ((%s %s))))", q, sBV64, inr, lo, pf, q, pf, q, hi, pf, q))
		for _, l := range layoutOf(et).Leaves {
			hn := elemHeapName(elemKey(et), l.Path)
			hs := arrSort(sBV64, arrSort(sBV64, l.Sort))
			h := vc.heapTerm(st, hn, hs)
			old := vc.define("sro", arrSort(sBV64, l.Sort), sel(h, sv.L[0]))
			na := vc.freshConst("sra", arrSort(sBV64, l.Sort))
			q2 := vc.fresh("i")
			inr2 := and(app("bvsle", lo, q2), app("bvslt", q2, hi))
			vc.assume("true", fmt.Sprintf("(forall ((%s %s)) (! (= (select %s %s) (ite %s (select %s (%s %s)) (select %s %s))) :pattern ((select %s %s))))", q2, sBV64, na, q2, inr2, old, pf, q2, old, q2, na, q2))
			vc.setHeap(st, hn, hs, sto(h, sv.L[0], na))
			vc.dirty[hn] = true
		}
		return Val{T: rt}
	}
	// unicode/utf8.Valid: a total, side-effect-free predicate of the bytes (its value is left unspecified)
	externTable["unicode/utf8.Valid"] = func(vc *VC, fr *Frame, st *State, call *ssa.CallCommon, args []Val, rt types.Type) Val {
		vc.trusted["unicode/utf8.Valid: total and side-effect free; which byte sequences it accepts is not specified"] = true
		return Val{T: rt, L: []string{vc.freshConst("utf8ok", sBool)}}
	}
}

// Sizes of dynamically typed values handed to binary.Write.  Real type tags
// encode the size (width/8 for fixed-size integer, float and bool types, 0 = not
// a fixed-size scalar) in their own bits; the elements of a slice held by a
// message field carry a synthetic tag that encodes their class and width.
const synthTagBase = 0x40000000

func synthElemTag(ecls, ewid string) string {
	return app("bvor", bvLit(64, synthTagBase), app("bvshl", app("bvand", ecls, bvLit(64, 0xFF)), bvLit(64, 16)), app("bvand", ewid, bvLit(64, 0xFFFF)))
}

func (vc *VC) binSizeTerm(tag string) string {
	// real type tags carry the size in bits 20..23 (TypeTags.tag); synthetic element tags their width in bits
	synth := app("bvuge", tag, bvLit(64, synthTagBase))
	return ite(synth, app("bvlshr", app("bvand", tag, bvLit(64, 0xFFFF)), bvLit(64, 3)), app("bvand", app("bvlshr", tag, bvLit(64, 20)), bvLit(64, 0xF)))
}
