package main

// Schema contract for the generated String methods (property C20, clause 1):
// for every constant c of type T, T(c).String() is c's name without the type
// prefix (any one of the names when several constants share the value), and
// every other value prints as T(n).  The constants come from go/types; the
// method body is the real SSA.

import (
	"fmt"
	"go/constant"
	"go/types"
	"os"
	"path/filepath"
	"sort"
	"strings"
	"time"

	"golang.org/x/tools/go/ssa"
)

func init() {
	externTable["strconv.FormatInt"] = func(vc *VC, fr *Frame, st *State, call *ssa.CallCommon, args []Val, rt types.Type) Val {
		vc.trusted["strconv.FormatInt: total function of its arguments (uninterpreted)"] = true
		return vc.itoa(args[0], args[1])
	}
}

func (vc *VC) itoa(i, base Val) Val {
	vc.declareFun("Itoa", []string{sBV64, sBV64}, sBV64)
	vc.declareFun("ItoaLen", []string{sBV64, sBV64}, sBV64)
	return Val{T: types.Typ[types.String], L: []string{app("Itoa", i.L[0], base.L[0]), bvLit(64, 0), app("ItoaLen", i.L[0], base.L[0])}}
}

type stringerType struct {
	named  *types.Named
	fn     *ssa.Function
	values map[uint64][]string // value -> names without prefix
	order  []uint64
}

func (w *World) stringerTypes() []*stringerType {
	pkg := w.PkgByPath[modPath]
	sp := w.SSAPkgs[modPath]
	var out []*stringerType
	scope := pkg.Types.Scope()
	byType := map[*types.Named]*stringerType{}
	for _, n := range scope.Names() {
		tn, ok := scope.Lookup(n).(*types.TypeName)
		if !ok {
			continue
		}
		named, ok := tn.Type().(*types.Named)
		if !ok || !isInteger(named) {
			continue
		}
		sel := w.Prog.MethodSets.MethodSet(named).Lookup(pkg.Types, "String")
		if sel == nil {
			continue
		}
		fn := w.Prog.MethodValue(sel)
		if fn == nil || fn.Pos() == 0 {
			continue
		}
		if filepath.Base(w.Fset.Position(fn.Pos()).Filename) != "types_string.go" {
			continue // only the generated stringers
		}
		st := &stringerType{named: named, fn: fn, values: map[uint64][]string{}}
		byType[named] = st
		out = append(out, st)
	}
	_ = sp
	for _, n := range scope.Names() {
		c, ok := scope.Lookup(n).(*types.Const)
		if !ok {
			continue
		}
		named, ok := c.Type().(*types.Named)
		if !ok {
			continue
		}
		st := byType[named]
		if st == nil {
			continue
		}
		tname := named.Obj().Name()
		if !strings.HasPrefix(n, tname) {
			continue
		}
		var v uint64
		if u, ok := constant.Uint64Val(c.Val()); ok {
			v = u
		} else if i, ok := constant.Int64Val(c.Val()); ok {
			v = uint64(i)
		}
		w8 := widthOf(named)
		if w8 < 64 {
			v &= (1 << uint(w8)) - 1
		}
		if _, seen := st.values[v]; !seen {
			st.order = append(st.order, v)
		}
		st.values[v] = append(st.values[v], strings.TrimPrefix(n, tname))
	}
	sort.Slice(out, func(i, j int) bool { return out[i].named.Obj().Name() < out[j].named.Obj().Name() })
	return out
}

// stringerVC builds the obligations of one String method.
func (w *World) stringerVC(st *stringerType, prop string) (res *FuncResult) {
	fn := st.fn
	vc := newVC(w, fn, nil)
	vc.curProps = []string{prop}
	vc.safetyProps = []string{prop}
	res = &FuncResult{Fn: fn.String()}
	defer func() {
		if r := recover(); r != nil {
			switch e := r.(type) {
			case outsideSubset:
				res.Outside = e.msg
			case specErr:
				res.Outside = "spec: " + e.msg
			default:
				panic(r)
			}
		}
		vc.finishPrelude()
		res.Obls = vc.obls
		res.Prelude = vc.prelude
		res.Statics = vc.statics
		res.Script = vc.script
		for t := range vc.trusted {
			res.Trusted = append(res.Trusted, t)
		}
	}()
	vc.revealed["tables"] = true
	fr := vc.newFrame(fn, true)
	state := &State{heap: newHeap(), cond: "true"}
	vc.declare("alloc0", sBV64)
	state.alloc = "alloc0"
	vc.assume("true", and(app("bvugt", "alloc0", bvLit(64, 1<<20)), app("bvult", "alloc0", bvLit(64, 1<<45))))
	vc.entry = state.clone()
	p := fn.Params[0]
	wd := widthOf(p.Type())
	iv := smtName("p!i!0")
	vc.declare(iv, bvSort(wd))
	fr.vals[p] = Val{T: p.Type(), L: []string{iv}}
	rets, out := vc.execBody(fr, state)
	if out == nil {
		vc.unsupported("String method never returns")
	}
	tname := st.named.Obj().Name()
	strT := types.Typ[types.String]
	// expected default form: "T(" + itoa(int64(i), 10) + ")"
	conv, _ := vc.convert(Val{T: p.Type(), L: []string{iv}}, types.Typ[types.Int64])
	def := vc.strConcat(vc.strConcat(vc.constVal(strT, constant.MakeString(tname+"(")), vc.itoa(conv, Val{T: types.Typ[types.Int], L: []string{bvLit(64, 10)}})), vc.constVal(strT, constant.MakeString(")")))
	vals := append([]uint64(nil), st.order...)
	sort.Slice(vals, func(a, b int) bool { return vals[a] < vals[b] })
	var namesSubs, covSubs []*SubGoal
	// one ground sub-goal per constant value, on the merged return value
	r := rets[0]
	for _, rs := range fr.retVals {
		vc.needStrContent(rs.vals[0].L[0]) // content axioms of the literal results behind the merged value
	}
	var notAny []string
	for _, v := range vals {
		is := eq(iv, bvLit(wd, v))
		notAny = append(notAny, not(is))
		var alts []string
		for _, n := range st.values[v] {
			alts = append(alts, vc.strEq(r, vc.constVal(strT, constant.MakeString(n))))
		}
		namesSubs = append(namesSubs, &SubGoal{Prefix: len(vc.script), Cond: and(out.cond, is), Goal: or(alts...)})
	}
	for _, rs := range fr.retVals {
		covSubs = append(covSubs, &SubGoal{Prefix: len(vc.script), Cond: rs.st.cond, Goal: imp(and(notAny...), vc.strEq(rs.vals[0], def))})
	}
	vc.obligeSubs("post", "names", namesSubs, false, fn.Pos(), []string{prop})
	namesObl := vc.obls[len(vc.obls)-1]
	vc.obligeSubs("post", "other-values", covSubs, false, fn.Pos(), []string{prop})
	otherObl := vc.obls[len(vc.obls)-1]
	// replay tests: the contract instances executed on the real method
	var tb strings.Builder
	fmt.Fprintf(&tb, "package fit\n\nimport (\n\t\"fmt\"\n\t\"testing\"\n)\n\nvar _ = fmt.Sprint\n\nfunc TestGovcReplay(govcT *testing.T) {\n\tnamed := map[%s][]string{\n", tname)
	for _, v := range vals {
		fmt.Fprintf(&tb, "\t\t%d: {", v)
		for _, n := range st.values[v] {
			fmt.Fprintf(&tb, "%q, ", n)
		}
		tb.WriteString("},\n")
	}
	tb.WriteString("\t}\n")
	head := tb.String()
	namesObl.ReplaySrc = head + fmt.Sprintf(`	for v, names := range named {
		got, ok := v.String(), false
		for _, n := range names {
			ok = ok || got == n
		}
		if !ok {
			govcT.Errorf("GOVC-REPRODUCED: %s(%%d).String() = %%q, the constant is named %%q\n", uint64(v), got, names)
		}
	}
}
`, tname)
	limit := uint64(1) << uint(wd)
	if wd > 16 {
		limit = 1 << 20 // sampled: the low 2^20 values and the neighbours of the constants
	}
	otherObl.ReplaySrc = head + fmt.Sprintf(`	check := func(v %s) {
		if _, isNamed := named[v]; isNamed {
			return
		}
		if got, want := v.String(), fmt.Sprintf("%s(%%d)", int64(v)); got != want {
			govcT.Errorf("GOVC-REPRODUCED: %s(%%d).String() = %%q, want %%q (no constant has this value)\n", int64(v), got, want)
		}
	}
	for x := uint64(0); x < %d; x++ {
		check(%s(x))
	}
	for v := range named {
		check(v - 1)
		check(v + 1)
	}
	check(^%s(0))
}
`, tname, tname, tname, limit, tname, tname)

	return res
}

func (w *World) stringerObligations(run *checkRun) {
	sts := w.stringerTypes()
	n := 0
	for _, st := range sts {
		fr := w.stringerVC(st, run.prop)
		run.results = append(run.results, fr)
		run.funcs = append(run.funcs, fr.Fn)
		if fr.Outside != "" {
			run.outside = append(run.outside, fr.Fn+": "+fr.Outside)
		}
		for _, t := range fr.Trusted {
			run.trusted[t] = true
		}
		for _, o := range fr.Obls {
			run.items = append(run.items, workItem{fr, o})
		}
		n += len(st.order)
	}
	run.notes = append(run.notes, fmt.Sprintf("schema stringers: %d generated String methods, %d distinct constant values; contract instances generated from the constant declarations (go/types)", len(sts), n))
}

// regenObligation decides the second clause of C20 - the checked-in
// types_string.go is exactly what the repository's own stringer produces from
// the checked-in types.go - by running that generator (package
// cmd/fitgen/internal/fitstringer, through an injected in-package test, nothing
// is written to the repository) and comparing byte for byte.  This is the
// evaluation of a closed statement about two files, not a proof about all
// inputs; it is listed separately in the evidence.
func (w *World) regenObligation(run *checkRun) {
	repo := w.PkgByPath[modPath].Dir
	fr := &FuncResult{Fn: "types_string.go"}
	run.results = append(run.results, fr)
	o := &Obligation{Name: "types_string.go#regenerated", Kind: "regeneration", Fn: "types_string.go", Props: []string{run.prop}, Expect: "unsat", Solver: "go run (repository stringer)", Status: "unsat", Goal: "true", Cond: "true"}
	run.items = append(run.items, workItem{fr, o})
	pkgDir := filepath.Join(repo, "cmd", "fitgen", "internal", "fitstringer")
	src := fmt.Sprintf(`package fitstringer

import (
	"bytes"
	"os"
	"regexp"
	"strings"
	"testing"
)

func TestGovcReplay(govcT *testing.T) {
	have, err := os.ReadFile(%q)
	if err != nil {
		govcT.Fatalf("GOVC-REGEN-ERROR %%v", err)
	}
	m := regexp.MustCompile("(?m)^// fit types: \\[(.*)\\]$").FindSubmatch(have)
	if m == nil {
		govcT.Fatalf("GOVC-REGEN-ERROR no type list in the header of types_string.go")
	}
	out, err := Generate(strings.Fields(string(m[1])), %q)
	if err != nil {
		govcT.Fatalf("GOVC-REGEN-ERROR %%v", err)
	}
	if !bytes.Equal(out, have) {
		hl, ol := strings.Split(string(have), "\n"), strings.Split(string(out), "\n")
		for i := 0; i < len(hl) || i < len(ol); i++ {
			h, o := "<end of file>", "<end of file>"
			if i < len(hl) {
				h = hl[i]
			}
			if i < len(ol) {
				o = ol[i]
			}
			if h != o {
				govcT.Fatalf("GOVC-REPRODUCED: types_string.go differs from the generator's output at line %%d:\n  checked in: %%.200s\n  generated:  %%.200s", i+1, h, o)
			}
		}
	}
}
`, filepath.Join(repo, "types_string.go"), filepath.Join(repo, "types.go"))
	t0 := time.Now()
	ok, txt := (&replayPlan{pkgDir: pkgDir, pkgPath: modPath + "/cmd/fitgen/internal/fitstringer", src: src, noTag: true}).run(w)
	o.Seconds = time.Since(t0).Seconds()
	switch {
	case ok:
		o.Status = "sat"
		o.Model = txt
		o.Output = txt
	case strings.Contains(goTestOutput(txt), "GOVC-REGEN-ERROR") || !strings.Contains(goTestOutput(txt), "ok  \t"):
		o.Status = "error"
		o.Output = txt
	}
	// the type list of the header is the set of integer types declared in types.go that have constants
	sts := w.stringerTypes()
	have, _ := os.ReadFile(filepath.Join(repo, "types_string.go"))
	listed := map[string]bool{}
	for _, l := range strings.Split(string(have), "\n") {
		if strings.HasPrefix(l, "// fit types: [") {
			for _, n := range strings.Fields(strings.TrimSuffix(strings.TrimPrefix(l, "// fit types: ["), "]")) {
				listed[n] = true
			}
		}
	}
	gc := groundCheck{name: "types_string.go#type-list", ok: true}
	for _, st := range sts {
		if !listed[st.named.Obj().Name()] {
			gc.ok = false
			gc.why = "type " + st.named.Obj().Name() + " has a generated String method but is not in the header's type list"
		}
	}
	o2 := w.groundObligation(run.prop, gc)
	o2.Kind = "regeneration"
	o2.Fn = "types_string.go"
	run.items = append(run.items, workItem{fr, o2})
	run.trusted["clause 2 of C20 is decided by running the repository's own stringer on the checked-in types.go and comparing with types_string.go (evaluation of a closed statement, not deduction)"] = true
}

func goTestOutput(report string) string {
	if i := strings.LastIndex(report, "go test output:"); i >= 0 {
		return report[i:]
	}
	return report
}
