package main

// Package-level variables: immutable tables are extracted mechanically from
// their initialisers in the type-checked AST on every run; everything else is
// mutable state (G! heaps).

import (
	"fmt"
	"go/ast"
	"go/constant"
	"go/token"
	"go/types"
	"math"
	"sort"
	"strings"
	"time"

	"golang.org/x/tools/go/packages"
	"golang.org/x/tools/go/ssa"
)

type globalInfo struct {
	g         *ssa.Global
	immutable bool
	why       string   // why not immutable
	init      *initVal // nil: unknown initial value
	initErr   string
}

// initVal: value of an initialiser. For arrays, leaves hold nested array terms.
type initVal struct {
	T types.Type
	L []string // parallel to nestedLeaves(T)
}

type staticObj struct {
	ref    uint64
	T      types.Type
	val    Val
	pos    token.Pos
	axioms []string
}

type staticMap struct {
	mt      *types.Map
	vals    []string
	pres    string
	strSids map[string]bool // constant strings stored as values (content axioms on demand)
}

type globalTables struct {
	staticMaps    map[uint64]*staticMap
	info          map[*ssa.Global]*globalInfo
	statics       []*staticObj        // objects created by &T{...} in global initialisers
	staticAxioms  map[string][]string // heap name -> axioms on the base heap
	mutableTypes  map[string]string   // struct key -> reason (some function stores to a field of this type)
	typeSweepDone bool
	nboxes        int // static boxes of interface-typed table entries
}

const staticRefBase = 0x10000

// nestedLeaves is like layoutOf but supports arrays of arrays (for tables):
// every array dimension wraps the leaf sort in one more Array.
func nestedLeafSorts(t types.Type) []string {
	if at, ok := t.Underlying().(*types.Array); ok {
		var out []string
		for _, s := range nestedLeafSorts(at.Elem()) {
			out = append(out, arrSort(sBV64, s))
		}
		return out
	}
	if stt, ok := t.Underlying().(*types.Struct); ok {
		if _, opaque := isOpaqueNamed(t); !opaque {
			var out []string
			for i := 0; i < stt.NumFields(); i++ {
				out = append(out, nestedLeafSorts(stt.Field(i).Type())...)
			}
			return out
		}
	}
	var out []string
	for _, l := range layoutOf(t).Leaves {
		out = append(out, l.Sort)
	}
	return out
}

func (w *World) globalInfoOf(g *ssa.Global) *globalInfo {
	if w.gt.info == nil {
		w.gt.info = map[*ssa.Global]*globalInfo{}
		w.gt.staticAxioms = map[string][]string{}
	}
	if gi, ok := w.gt.info[g]; ok {
		return gi
	}
	gi := &globalInfo{g: g}
	w.gt.info[g] = gi
	if g.Pkg == nil || !isVerifiedPkgPath(g.Pkg.Pkg.Path()) {
		gi.immutable = true // external package variable: assumed never reassigned
		return gi
	}
	gi.immutable, gi.why = w.sweepGlobal(g)
	if gi.immutable {
		iv, err := w.extractInit(g)
		if err != nil {
			gi.initErr = err.Error()
		} else {
			gi.init = iv
		}
	}
	return gi
}

func isVerifiedPkgPath(p string) bool {
	return p == modPath || p == modPath+"/dyncrc16" || p == modPath+"/internal/types"
}

func (w *World) immutableGlobal(g *ssa.Global) bool { return w.globalInfoOf(g).immutable }

// sweepGlobal: true iff no function outside init stores to (memory reachable
// directly from) the global.
func (w *World) sweepGlobal(g *ssa.Global) (bool, string) {
	var bad string
	var checkUses func(v ssa.Value, fn *ssa.Function, depth int)
	checkUses = func(v ssa.Value, fn *ssa.Function, depth int) {
		refs := v.Referrers()
		if refs == nil {
			return
		}
		for _, r := range *refs {
			switch x := r.(type) {
			case *ssa.UnOp:
				// load
			case *ssa.FieldAddr:
				checkUses(x, fn, depth+1)
			case *ssa.IndexAddr:
				checkUses(x, fn, depth+1)
			case *ssa.Store:
				if x.Addr == v {
					bad = fmt.Sprintf("stored to in %s", fn)
				} else {
					bad = fmt.Sprintf("address escapes (stored) in %s", fn)
				}
			case *ssa.DebugRef:
			case *ssa.Slice:
				// slice of a global array: allowed only as a read-only source of copy/Write-free uses
				srefs := x.Referrers()
				if srefs != nil {
					for _, sr := range *srefs {
						if c, ok := sr.(ssa.CallInstruction); ok {
							if b, ok := c.Common().Value.(*ssa.Builtin); ok && b.Name() == "copy" && c.Common().Args[1] == ssa.Value(x) {
								continue
							}
						}
						if _, ok := sr.(*ssa.DebugRef); ok {
							continue
						}
						bad = fmt.Sprintf("slice of global escapes in %s", fn)
					}
				}
			default:
				bad = fmt.Sprintf("address used by %T in %s", r, fn)
			}
		}
	}
	// Referrers() is nil for globals: scan all functions for operands
	for fn := range w.AllFuncs {
		if !inVerifiedPkgs(fn) {
			continue
		}
		isInit := fn.Name() == "init" || strings.HasPrefix(fn.Name(), "init#")
		for _, b := range fn.Blocks {
			for _, instr := range b.Instrs {
				for _, op := range instr.Operands(nil) {
					if *op != ssa.Value(g) {
						continue
					}
					if isInit {
						continue
					}
					switch x := instr.(type) {
					case *ssa.UnOp:
					case *ssa.DebugRef:
					case *ssa.FieldAddr:
						checkUses(x, fn, 0)
					case *ssa.IndexAddr:
						checkUses(x, fn, 0)
					case *ssa.Store:
						if x.Addr == ssa.Value(g) {
							bad = fmt.Sprintf("stored to in %s", fn)
						} else {
							bad = fmt.Sprintf("address escapes in %s", fn)
						}
					case *ssa.Slice:
						checkUses(x.X, fn, 0)
						srefs := x.Referrers()
						if srefs != nil {
							for _, sr := range *srefs {
								if c, ok := sr.(ssa.CallInstruction); ok {
									if b, ok := c.Common().Value.(*ssa.Builtin); ok && b.Name() == "copy" && len(c.Common().Args) == 2 && c.Common().Args[1] == ssa.Value(x) {
										continue
									}
								}
								if _, ok := sr.(*ssa.DebugRef); ok {
									continue
								}
								bad = fmt.Sprintf("slice of global escapes in %s", fn)
							}
						}
					default:
						bad = fmt.Sprintf("address used by %T in %s", instr, fn)
					}
				}
			}
		}
	}
	return bad == "", bad
}

// typeIsMutated: some function stores to a field of objects of this struct type.
func (w *World) mutatedTypes() map[string]string {
	if w.gt.typeSweepDone {
		return w.gt.mutableTypes
	}
	w.gt.typeSweepDone = true
	w.gt.mutableTypes = map[string]string{}
	for fn := range w.AllFuncs {
		if !inVerifiedPkgs(fn) {
			continue
		}
		if fn.Name() == "init" {
			continue
		}
		for _, b := range fn.Blocks {
			for _, instr := range b.Instrs {
				st, ok := instr.(*ssa.Store)
				if !ok {
					continue
				}
				// find the root of the address chain; stores into objects allocated by
				// this very function (initialisation of fresh objects) are not mutations
				cur := st.Addr
				var touched []string
				for {
					if fa, ok := cur.(*ssa.FieldAddr); ok {
						touched = append(touched, structKey(deref(fa.X.Type())))
						cur = fa.X
						continue
					}
					if ia, ok := cur.(*ssa.IndexAddr); ok {
						cur = ia.X
						if _, isSl := cur.Type().Underlying().(*types.Slice); isSl {
							break
						}
						continue
					}
					break
				}
				if _, isAlloc := cur.(*ssa.Alloc); isAlloc {
					continue
				}
				touched = append(touched, structKey(deref(cur.Type())))
				for _, t := range touched {
					w.gt.mutableTypes[t] = fn.String()
				}
			}
		}
	}
	return w.gt.mutableTypes
}

// ---------------------------------------------------------------------------
// initialiser extraction

func (w *World) findValueSpec(g *ssa.Global) (*packages.Package, ast.Expr, types.Type, bool) {
	pkg := w.PkgByPath[g.Pkg.Pkg.Path()]
	if pkg == nil {
		return nil, nil, nil, false
	}
	obj := g.Object()
	for _, f := range pkg.Syntax {
		for _, d := range f.Decls {
			gd, ok := d.(*ast.GenDecl)
			if !ok || gd.Tok != token.VAR {
				continue
			}
			for _, s := range gd.Specs {
				vs := s.(*ast.ValueSpec)
				for i, n := range vs.Names {
					if pkg.TypesInfo.Defs[n] == obj {
						if len(vs.Values) == len(vs.Names) {
							return pkg, vs.Values[i], obj.Type(), true
						}
						if len(vs.Values) == 0 {
							return pkg, nil, obj.Type(), true
						}
						return pkg, nil, obj.Type(), false
					}
				}
			}
		}
	}
	return nil, nil, nil, false
}

type initEval struct {
	w   *World
	pkg *packages.Package
	vc  *VC // only for constVal/zero helpers (no state)
}

func (w *World) extractInit(g *ssa.Global) (*initVal, error) {
	pkg, expr, t, ok := w.findValueSpec(g)
	if !ok {
		return nil, fmt.Errorf("no simple initialiser found")
	}
	ie := &initEval{w: w, pkg: pkg, vc: newVC(w, nil, nil)}
	if expr == nil {
		return &initVal{T: t, L: ie.zeroNested(t)}, nil
	}
	var res *initVal
	var err error
	func() {
		defer func() {
			if r := recover(); r != nil {
				err = fmt.Errorf("%v", r)
			}
		}()
		res = &initVal{T: t, L: ie.eval(expr, t)}
	}()
	return res, err
}

func (ie *initEval) zeroNested(t types.Type) []string {
	var out []string
	for _, s := range nestedLeafSorts(t) {
		out = append(out, zeroOfSort(s))
	}
	return out
}

func (ie *initEval) eval(x ast.Expr, t types.Type) []string {
	info := ie.pkg.TypesInfo
	if _, isIface := t.Underlying().(*types.Interface); isIface {
		// a value of a concrete static type stored in an interface-typed slot of a table (types.goinvalid):
		// the dynamic type is the expression's static type; the box is a static object of its own whose
		// content is left unspecified (only the dynamic type is known to the contracts).
		if tv, ok := info.Types[x]; ok && tv.Type != nil && !tv.IsNil() {
			if _, srcIface := tv.Type.Underlying().(*types.Interface); !srcIface {
				if _, isPtr := tv.Type.Underlying().(*types.Pointer); !isPtr {
					st := types.Default(tv.Type)
					ie.w.gt.nboxes++
					return []string{bvLit(64, uint64(ie.w.tags.tag(st))), bvLit(64, uint64(0x200000+ie.w.gt.nboxes))}
				}
			}
		}
	}
	if tv, ok := info.Types[x]; ok && tv.Value != nil {
		return ie.vc.constVal(t, tv.Value).L
	}
	switch x := x.(type) {
	case *ast.ParenExpr:
		return ie.eval(x.X, t)
	case *ast.CompositeLit:
		switch u := t.Underlying().(type) {
		case *types.Array:
			et := u.Elem()
			leaves := ie.zeroNested(t)
			idx := int64(0)
			for _, el := range x.Elts {
				var vx ast.Expr = el
				if kv, ok := el.(*ast.KeyValueExpr); ok {
					k, ok := constInt(info, kv.Key)
					if !ok {
						panic("non-constant array key")
					}
					idx = k
					vx = kv.Value
				}
				ev := ie.evalElem(vx, et)
				for li := range leaves {
					leaves[li] = sto(leaves[li], bvLit(64, uint64(idx)), ev[li])
				}
				idx++
			}
			return leaves
		case *types.Struct:
			leaves := ie.zeroNested(t)
			for i, el := range x.Elts {
				fi := i
				var vx ast.Expr = el
				if kv, ok := el.(*ast.KeyValueExpr); ok {
					name := kv.Key.(*ast.Ident).Name
					for k := 0; k < u.NumFields(); k++ {
						if u.Field(k).Name() == name {
							fi = k
						}
					}
					vx = kv.Value
				}
				off := 0
				for k := 0; k < fi; k++ {
					off += len(nestedLeafSorts(u.Field(k).Type()))
				}
				fv := ie.evalElem(vx, u.Field(fi).Type())
				copy(leaves[off:off+len(fv)], fv)
			}
			return leaves
		case *types.Map:
			// immutable map table: (present array, value arrays) keyed by key term
			ks, kf := mapKeySort(u)
			vl := layoutOf(u.Elem())
			var vals []string
			for _, l := range vl.Leaves {
				vals = append(vals, constArr(arrSort(ks, l.Sort), zeroOfSort(l.Sort)))
			}
			pres := constArr(arrSort(ks, sBool), "false")
			strSids := map[string]bool{}
			for _, el := range x.Elts {
				kv := el.(*ast.KeyValueExpr)
				kt := ie.eval(kv.Key, u.Key())
				key := kf(Val{T: u.Key(), L: kt})
				ev := ie.eval(kv.Value, u.Elem())
				if isString(u.Elem()) {
					strSids[ev[0]] = true
				}
				for li := range vals {
					vals[li] = sto(vals[li], key, ev[li])
				}
				pres = sto(pres, key, "true")
			}
			id := uint64(0x300000 + len(ie.w.gt.staticMaps))
			if ie.w.gt.staticMaps == nil {
				ie.w.gt.staticMaps = map[uint64]*staticMap{}
			}
			ie.w.gt.staticMaps[id] = &staticMap{mt: u, vals: vals, pres: pres, strSids: strSids}
			return []string{bvLit(64, id)}
		}
		panic("unsupported composite literal type " + t.String())
	case *ast.UnaryExpr:
		if x.Op == token.AND {
			if cl, ok := x.X.(*ast.CompositeLit); ok {
				return []string{ie.staticObject(cl, t.Underlying().(*types.Pointer).Elem())}
			}
		}
	case *ast.CallExpr:
		if r, ok := ie.evalKnownCall(x, t); ok {
			return r
		}
	case *ast.SliceExpr:
		// constant string sliced at constant bounds (generated stringer maps)
		if tv, ok := info.Types[x.X]; ok && tv.Value != nil && tv.Value.Kind() == constant.String && !x.Slice3 {
			whole := ie.vc.constVal(types.Typ[types.String], tv.Value).L
			n := int64(len(constant.StringVal(tv.Value)))
			lo, hi := int64(0), n
			okb := true
			if x.Low != nil {
				lo, okb = constInt(info, x.Low)
			}
			if x.High != nil && okb {
				hi, okb = constInt(info, x.High)
			}
			if okb && 0 <= lo && lo <= hi && hi <= n {
				return []string{whole[0], bvLit(64, uint64(lo)), bvLit(64, uint64(hi-lo))}
			}
		}
	case *ast.BinaryExpr:
		// arithmetic on floating-point values built from math.Pow (latlng.go factors)
		if f, ok := ie.floatExpr(x); ok {
			return ie.vc.constVal(t, constant.MakeFloat64(f)).L
		}
	case *ast.Ident, *ast.SelectorExpr:
		// reference to another package-level variable (e.g. binary.LittleEndian)
		var obj types.Object
		if id, ok := x.(*ast.Ident); ok {
			obj = info.Uses[id]
		} else {
			obj = info.Uses[x.(*ast.SelectorExpr).Sel]
		}
		if v, ok := obj.(*types.Var); ok && len(layoutOf(v.Type()).Leaves) == 0 {
			return nil
		}
		if v, ok := obj.(*types.Var); ok && v.Pkg() != nil && !isVerifiedPkgPath(v.Pkg().Path()) && types.Identical(v.Type(), types.Universe.Lookup("error").Type()) {
			// exported error variable of the standard library; converted to the target interface type
			return ie.vc.externErrVar(v.Pkg().Path() + "." + v.Name()).L
		}
		if id, ok := x.(*ast.Ident); ok && id.Name == "nil" {
			return ie.zeroNested(t)
		}
	}
	panic(fmt.Sprintf("unsupported initialiser expression %T", x))
}

// evalElem evaluates an element whose composite literal type may be elided.
func (ie *initEval) evalElem(x ast.Expr, et types.Type) []string {
	if cl, ok := x.(*ast.CompositeLit); ok {
		if pt, ok := et.Underlying().(*types.Pointer); ok {
			// elided &T{...}
			return []string{ie.staticObject(cl, pt.Elem())}
		}
		_ = cl
	}
	return ie.eval(x, et)
}

func (ie *initEval) staticObject(cl *ast.CompositeLit, t types.Type) string {
	leaves := ie.eval(cl, t)
	ref := uint64(staticRefBase + len(ie.w.gt.statics))
	so := &staticObj{ref: ref, T: t, val: Val{T: t, L: leaves}, pos: cl.Pos()}
	ie.w.gt.statics = append(ie.w.gt.statics, so)
	sk := structKey(t)
	for k, l := range layoutOf(t).Leaves {
		if l.InArr {
			panic("static object with embedded array")
		}
		hn := objHeapName(sk, l.Path)
		ax := fmt.Sprintf("(assert (= (select %s %s) %s))", smtName(hn), bvLit(64, ref), leaves[k])
		ie.w.gt.staticAxioms[hn] = append(ie.w.gt.staticAxioms[hn], ax)
		so.axioms = append(so.axioms, ax)
	}
	return bvLit(64, ref)
}

// ---------------------------------------------------------------------------
// loads / stores

func globalName(g *ssa.Global) string {
	if g.Pkg != nil {
		return g.Pkg.Pkg.Name() + "." + g.Name()
	}
	return g.Name()
}

// globalConstSyms returns the symbols holding the (immutable) value of g.
func (vc *VC) globalConstSyms(g *ssa.Global) []string {
	gi := vc.w.globalInfoOf(g)
	t := g.Type().(*types.Pointer).Elem()
	if g.Pkg != nil && !isVerifiedPkgPath(g.Pkg.Pkg.Path()) {
		if it, ok := t.Underlying().(*types.Interface); ok && types.Identical(t, types.Universe.Lookup("error").Type()) {
			_ = it
			vc.trusted["exported error variables of the standard library (io.EOF, io.ErrUnexpectedEOF, ...) are non-nil, pairwise distinct and never reassigned"] = true
			return vc.externErrVar(g.Pkg.Pkg.Path() + "." + g.Name()).L
		}
	}
	sorts := nestedLeafSorts(t)
	var syms []string
	for k, s := range sorts {
		if gi.init != nil && !strings.HasPrefix(s, "(Array ") && len(gi.init.L[k]) < 64 {
			syms = append(syms, gi.init.L[k])
			continue
		}
		n := smtName(fmt.Sprintf("GC!%s!%d", globalName(g), k))
		syms = append(syms, n)
		if !vc.declared[n] {
			vc.declare(n, s)
			if gi.init != nil && len(gi.init.L[k]) > 4096 && !vc.revealed["tables"] {
				// large profile table: its contents are only revealed on request
				vc.hiddenTables[globalName(g)] = true
			} else if gi.init != nil {
				vc.prelude = append(vc.prelude, fmt.Sprintf("(assert (= %s %s))", n, gi.init.L[k]))
				// static objects referenced by tables need their heap axioms: added on heap use
			} else {
				vc.trusted[fmt.Sprintf("value of package variable %s not extracted (%s): treated as an unknown constant", globalName(g), gi.initErr)] = true
			}
		}
	}
	return syms
}

func (vc *VC) loadGlobalPath(st *State, d *PtrDesc) Val {
	g := d.Glob
	gi := vc.w.globalInfoOf(g)
	t := g.Type().(*types.Pointer).Elem()
	var leaves []string
	if gi.immutable {
		leaves = vc.globalConstSyms(g)
	} else {
		for k, s := range nestedLeafSorts(t) {
			hn := fmt.Sprintf("%s!%d", globHeapName(globalName(g)), k)
			leaves = append(leaves, vc.heapTerm(st, hn, s))
		}
	}
	// apply index path
	cur := t
	for _, ix := range d.GIdx {
		at := cur.Underlying().(*types.Array)
		for k := range leaves {
			leaves[k] = sel(leaves[k], ix)
		}
		cur = at.Elem()
	}
	// sub path inside
	path := d.Sub
	if len(d.GIdx) == 0 {
		path = d.Path
	}
	if path != "" {
		// select the leaves of the field path
		stt := cur
		off, n := 0, len(leaves)
		for _, f := range strings.Split(path, ".") {
			su := stt.Underlying().(*types.Struct)
			o := off
			found := false
			for i := 0; i < su.NumFields(); i++ {
				cnt := len(nestedLeafSorts(su.Field(i).Type()))
				if su.Field(i).Name() == f {
					off, n = o, cnt
					stt = su.Field(i).Type()
					found = true
					break
				}
				o += cnt
			}
			if !found {
				vc.unsupported("global path %s", path)
			}
		}
		leaves = leaves[off : off+n]
		cur = stt
	}
	return Val{T: d.T, L: leaves}
}

func (vc *VC) storeGlobalPath(st *State, d *PtrDesc, v Val) {
	g := d.Glob
	gi := vc.w.globalInfoOf(g)
	if gi.immutable {
		// a store exists in this function, so the sweep must have flagged it
		vc.unsupported("store to global %s classified immutable", globalName(g))
	}
	if len(d.GIdx) > 0 || d.Path != "" {
		vc.unsupported("store into part of global %s", globalName(g))
	}
	t := g.Type().(*types.Pointer).Elem()
	for k, s := range nestedLeafSorts(t) {
		hn := fmt.Sprintf("%s!%d", globHeapName(globalName(g)), k)
		vc.setHeap(st, hn, s, v.L[k])
	}
}

func (vc *VC) loadGlobalVar(st *State, gv *types.Var) Val {
	sp := vc.w.SSAPkgs[gv.Pkg().Path()]
	var g *ssa.Global
	if sp != nil {
		g = sp.Var(gv.Name())
	}
	if g == nil {
		// variable of an unloaded (external) package: opaque constant
		v := Val{T: gv.Type()}
		for k, l := range layoutOf(gv.Type()).Leaves {
			n := smtName(fmt.Sprintf("GX!%s.%s!%d", gv.Pkg().Name(), gv.Name(), k))
			vc.declare(n, l.Sort)
			v.L = append(v.L, n)
		}
		return v
	}
	d := &PtrDesc{Root: rGlobal, Glob: g, RootT: gv.Type(), T: gv.Type()}
	return vc.loadGlobalPath(st, d)
}

// globalMapTable: lookups in immutable map-typed globals.
func (vc *VC) globalMapTable(m Val) (func(Val) Val, bool) {
	var id uint64
	var w int
	if len(m.L) != 1 {
		return nil, false
	}
	if _, err := fmt.Sscanf(m.L[0], "(_ bv%d %d)", &id, &w); err != nil {
		return nil, false
	}
	sm, ok := vc.w.gt.staticMaps[id]
	if !ok {
		return nil, false
	}
	ks, kf := mapKeySort(sm.mt)
	for sid := range sm.strSids {
		vc.needStrContent(sid)
	}
	// name the table arrays once per VC
	base := fmt.Sprintf("SM!%d", id)
	lay := layoutOf(sm.mt.Elem())
	var syms []string
	for k, l := range lay.Leaves {
		n := smtName(fmt.Sprintf("%s!%d", base, k))
		if !vc.declared[n] {
			vc.declare(n, arrSort(ks, l.Sort))
			if len(sm.vals[k]) <= 4096 || vc.revealed["tables"] {
				vc.prelude = append(vc.prelude, fmt.Sprintf("(assert (= %s %s))", n, sm.vals[k]))
			}
		}
		syms = append(syms, n)
	}
	pn := smtName(base + "!present")
	if !vc.declared[pn] {
		vc.declare(pn, arrSort(ks, sBool))
		if len(sm.pres) <= 4096 || vc.revealed["tables"] {
			vc.prelude = append(vc.prelude, fmt.Sprintf("(assert (= %s %s))", pn, sm.pres))
		}
	}
	return func(k Val) Val {
		key := kf(k)
		out := Val{T: sm.mt.Elem()}
		pres := sel(pn, key)
		for i, l := range lay.Leaves {
			out.L = append(out.L, ite(pres, sel(syms[i], key), zeroOfSort(l.Sort)))
		}
		out.L = append(out.L, pres)
		return out
	}, true
}

// globalSort: sort of a G!/Z! heap not yet seen in this VC.
func (w *World) globalSort(vc *VC, name string) string {
	if s, ok := vc.ghostSorts[name]; ok {
		return s
	}
	if strings.HasPrefix(name, "G!") {
		rest := strings.TrimPrefix(name, "G!")
		for _, sp := range w.SSAPkgs {
			for _, m := range sp.Members {
				g, ok := m.(*ssa.Global)
				if !ok {
					continue
				}
				if strings.HasPrefix(rest, globalName(g)+"!") || rest == globalName(g) {
					sorts := nestedLeafSorts(g.Type().(*types.Pointer).Elem())
					var k int
					fmt.Sscanf(strings.TrimPrefix(rest, globalName(g)+"!"), "%d", &k)
					if k < len(sorts) {
						return sorts[k]
					}
				}
			}
		}
	}
	return ""
}

// staticAxiomsFor adds the initial contents of static objects for a heap.
func (vc *VC) staticAxiomsFor(name string) {
	if vc.tableDone[name] {
		return
	}
	vc.tableDone[name] = true
	ax := vc.w.gt.staticAxioms[name]
	if len(ax) == 0 {
		return
	}
	if !vc.revealed["tables"] {
		vc.hiddenTables["static objects of "+name] = true
		return
	}
	vc.statics = append(vc.statics, ax...)
}

var _ = constant.MakeBool
var _ = sort.Strings

// evalKnownCall evaluates the few non-constant initialiser calls whose value
// the verifier computes itself (listed as assumptions).
func (ie *initEval) evalKnownCall(x *ast.CallExpr, t types.Type) ([]string, bool) {
	info := ie.pkg.TypesInfo
	se, ok := x.Fun.(*ast.SelectorExpr)
	if !ok {
		return nil, false
	}
	pk, ok := se.X.(*ast.Ident)
	if !ok {
		return nil, false
	}
	pn, ok := info.Uses[pk].(*types.PkgName)
	if !ok {
		return nil, false
	}
	switch pn.Imported().Path() + "." + se.Sel.Name {
	case "reflect.TypeOf":
		// reflect.TypeOf(XMsg{}) in the table msgsTypes: the identity the reflect model gives the type of a
		// Value that views a whole message (rtypeMsgBase + message number, see (reflect.Value).Type)
		if len(x.Args) == 1 {
			if tv, ok := info.Types[x.Args[0]]; ok && tv.Type != nil {
				if num, isMsg := ie.w.msgNumOfType(tv.Type); isMsg {
					return []string{bvLit(64, uint64(ie.w.tags.tagNamed("extern:reflect.rtype"))), bvLit(64, uint64(rtypeMsgBase+num))}, true
				}
			}
		}
		return nil, false
	case "time.Date":
		if len(x.Args) != 8 {
			return nil, false
		}
		var v [7]int64
		for i := 0; i < 7; i++ {
			c, ok := constInt(info, x.Args[i])
			if !ok {
				return nil, false
			}
			v[i] = c
		}
		if ls, ok := x.Args[7].(*ast.SelectorExpr); !ok || ls.Sel.Name != "UTC" {
			return nil, false
		}
		tm := time.Date(int(v[0]), time.Month(v[1]), int(v[2]), int(v[3]), int(v[4]), int(v[5]), int(v[6]), time.UTC)
		ie.w.initNotes["time.Date(...) in a package-level initialiser is evaluated by the verifier's own time package"] = true
		u := tm.Unix()
		return []string{bvLit(64, uint64(u)), bvLit(64, uint64(tm.Nanosecond())), bvLit(64, 0), bvLit(64, utcZoneId)}, true
	}
	if f, ok := ie.floatExpr(x); ok {
		return ie.vc.constVal(t, constant.MakeFloat64(f)).L, true
	}
	return nil, false
}

// floatExpr evaluates float64 expressions over constants and math.Pow.
func (ie *initEval) floatExpr(x ast.Expr) (float64, bool) {
	info := ie.pkg.TypesInfo
	if tv, ok := info.Types[x]; ok && tv.Value != nil {
		f, _ := constant.Float64Val(constant.ToFloat(tv.Value))
		return f, true
	}
	switch x := x.(type) {
	case *ast.ParenExpr:
		return ie.floatExpr(x.X)
	case *ast.BinaryExpr:
		a, ok1 := ie.floatExpr(x.X)
		b, ok2 := ie.floatExpr(x.Y)
		if !ok1 || !ok2 {
			return 0, false
		}
		switch x.Op {
		case token.ADD:
			return a + b, true
		case token.SUB:
			return a - b, true
		case token.MUL:
			return a * b, true
		case token.QUO:
			return a / b, true
		}
	case *ast.CallExpr:
		if se, ok := x.Fun.(*ast.SelectorExpr); ok && se.Sel.Name == "Pow" && len(x.Args) == 2 {
			if pk, ok := se.X.(*ast.Ident); ok {
				if pn, ok := info.Uses[pk].(*types.PkgName); ok && pn.Imported().Path() == "math" {
					a, ok1 := ie.floatExpr(x.Args[0])
					b, ok2 := ie.floatExpr(x.Args[1])
					if ok1 && ok2 {
						ie.w.initNotes["math.Pow in a package-level initialiser is evaluated by the verifier's own math package (IEEE float64)"] = true
						return math.Pow(a, b), true
					}
				}
			}
		}
	}
	return 0, false
}
