package main

// Memory model and value layout.
//
// Every Go value is a flat list of SMT terms ("leaves").  Integers are
// bit-vectors of their own width, pointers/refs are 64-bit bit-vectors,
// strings are (sid, off, len), slices (aid, off, len, cap), interfaces
// (tag, data).  Struct values are the concatenation of their fields.  An array
// value [N]T has, per leaf of T, one leaf of sort (Array BV64 leafsort).
//
// The heap is Burstall style: one SMT array per (named struct type, leaf path)
// indexed by object reference, and one two-level array per element type for
// all array storage (slices' backing arrays and arrays embedded in structs),
// indexed by array id and then by element index.

import (
	"fmt"
	"go/types"
	"sort"
	"strings"
)

const (
	sBool = "Bool"
	sBV8  = "(_ BitVec 8)"
	sBV16 = "(_ BitVec 16)"
	sBV32 = "(_ BitVec 32)"
	sBV64 = "(_ BitVec 64)"
	sF32  = "(_ FloatingPoint 8 24)"
	sF64  = "(_ FloatingPoint 11 53)"
)

func bvSort(n int) string           { return fmt.Sprintf("(_ BitVec %d)", n) }
func arrSort(idx, el string) string { return "(Array " + idx + " " + el + ")" }

type LeafKind int

const (
	lkScalar LeafKind = iota // bool, bv, fp
	lkRef                    // pointer / map / func
	lkStrSid
	lkStrOff
	lkStrLen
	lkSlAid
	lkSlOff
	lkSlLen
	lkSlCap
	lkIfTag
	lkIfData
	lkOpaque // component of an opaque external value
)

type Leaf struct {
	Path    string // field path within the value ("" for scalars), '.' separated; components like #len for composite leaves
	Sort    string // sort of the leaf in value form
	Kind    LeafKind
	GoT     types.Type // Go type of the scalar this leaf (or part) belongs to
	InArr   bool       // leaf is (part of) an embedded array: Sort is an array sort over ElSort
	ElSort  string
	ArrPath string // path of the embedded array field (prefix of Path)
	ArrLen  int64
	ElemKey string // element heap key for the array
	ElemSub string // leaf path inside the element
	Width   int    // bv width for integer scalars
	Signed  bool
}

type Layout struct {
	T      types.Type
	Leaves []Leaf
}

var layoutCache = map[string]*Layout{}

func typeKey(t types.Type) string {
	return types.TypeString(t, func(p *types.Package) string { return p.Path() })
}

func shortTypeName(t types.Type) string {
	t = types.Unalias(t)
	if b, ok := t.(*types.Basic); ok {
		switch b.Kind() {
		case types.Uint8:
			return "uint8"
		case types.Int32:
			return "int32"
		}
	}
	s := types.TypeString(t, func(p *types.Package) string { return p.Name() })
	r := strings.NewReplacer(" ", "_", "(", "<", ")", ">", "|", "/", ";", ",", "{", "<", "}", ">")
	return r.Replace(s)
}

func isOpaqueNamed(t types.Type) (string, bool) {
	n, ok := t.(*types.Named)
	if !ok {
		return "", false
	}
	if n.Obj().Pkg() == nil {
		return "", false
	}
	full := n.Obj().Pkg().Path() + "." + n.Obj().Name()
	switch full {
	case "reflect.Value", "time.Time", "bytes.Buffer", "time.Location", "sync.Pool", "sync.Mutex":
		return full, true
	}
	return "", false
}

// layoutOf computes the flat layout of a Go type.
func layoutOf(t types.Type) *Layout {
	key := typeKey(t)
	if l, ok := layoutCache[key]; ok {
		return l
	}
	l := &Layout{T: t}
	layoutCache[key] = l
	l.Leaves = flattenType(t, "")
	return l
}

func joinPath(a, b string) string {
	if a == "" {
		return b
	}
	if b == "" {
		return a
	}
	if strings.HasPrefix(b, "#") {
		return a + b
	}
	return a + "." + b
}

func flattenType(t types.Type, prefix string) []Leaf {
	if name, ok := isOpaqueNamed(t); ok {
		switch name {
		case "reflect.Value":
			// obj: reference of the struct object / element storage viewed;
			// mt: message-type tag (index in msgsTypes, 0xFFFF none); fld: field
			// index (sindex) or -1 for a whole message; idx: element index or -1
			var out []Leaf
			for _, n := range []string{"obj", "mt", "fld", "idx", "cls", "wid", "ecls", "ewid", "ttag"} {
				out = append(out, Leaf{Path: joinPath(prefix, "#rv."+n), Sort: sBV64, Kind: lkOpaque, GoT: t})
			}
			return out
		case "time.Time":
			// sec: seconds since the FIT-independent absolute origin (unix), signed;
			// ns: nanoseconds 0..999999999; zoff: zone offset seconds; zid: zone identity
			return []Leaf{
				{Path: joinPath(prefix, "#t.sec"), Sort: sBV64, Kind: lkOpaque, GoT: t},
				{Path: joinPath(prefix, "#t.ns"), Sort: sBV64, Kind: lkOpaque, GoT: t},
				{Path: joinPath(prefix, "#t.zoff"), Sort: sBV64, Kind: lkOpaque, GoT: t},
				{Path: joinPath(prefix, "#t.zid"), Sort: sBV64, Kind: lkOpaque, GoT: t},
			}
		default:
			return []Leaf{{Path: joinPath(prefix, "#opaque"), Sort: sBV64, Kind: lkOpaque, GoT: t}}
		}
	}
	switch u := t.Underlying().(type) {
	case *types.Basic:
		switch {
		case u.Info()&types.IsBoolean != 0:
			return []Leaf{{Path: prefix, Sort: sBool, GoT: t}}
		case u.Info()&types.IsInteger != 0:
			w := intWidth(u)
			return []Leaf{{Path: prefix, Sort: bvSort(w), GoT: t, Width: w, Signed: u.Info()&types.IsUnsigned == 0}}
		case u.Kind() == types.Float32:
			return []Leaf{{Path: prefix, Sort: sF32, GoT: t}}
		case u.Kind() == types.Float64 || u.Kind() == types.UntypedFloat:
			return []Leaf{{Path: prefix, Sort: sF64, GoT: t}}
		case u.Info()&types.IsString != 0:
			return []Leaf{
				{Path: joinPath(prefix, "#sid"), Sort: sBV64, Kind: lkStrSid, GoT: t},
				{Path: joinPath(prefix, "#off"), Sort: sBV64, Kind: lkStrOff, GoT: t},
				{Path: joinPath(prefix, "#len"), Sort: sBV64, Kind: lkStrLen, GoT: t},
			}
		case u.Kind() == types.UnsafePointer:
			return []Leaf{{Path: prefix, Sort: sBV64, Kind: lkRef, GoT: t}}
		case u.Kind() == types.UntypedNil:
			return []Leaf{{Path: prefix, Sort: sBV64, Kind: lkRef, GoT: t}}
		}
		panic("flatten: unsupported basic " + u.String())
	case *types.Pointer, *types.Map, *types.Signature, *types.Chan:
		return []Leaf{{Path: prefix, Sort: sBV64, Kind: lkRef, GoT: t}}
	case *types.Slice:
		return []Leaf{
			{Path: joinPath(prefix, "#aid"), Sort: sBV64, Kind: lkSlAid, GoT: t},
			{Path: joinPath(prefix, "#off"), Sort: sBV64, Kind: lkSlOff, GoT: t},
			{Path: joinPath(prefix, "#len"), Sort: sBV64, Kind: lkSlLen, GoT: t},
			{Path: joinPath(prefix, "#cap"), Sort: sBV64, Kind: lkSlCap, GoT: t},
		}
	case *types.Interface:
		return []Leaf{
			{Path: joinPath(prefix, "#tag"), Sort: sBV64, Kind: lkIfTag, GoT: t},
			{Path: joinPath(prefix, "#data"), Sort: sBV64, Kind: lkIfData, GoT: t},
		}
	case *types.Struct:
		var out []Leaf
		for i := 0; i < u.NumFields(); i++ {
			f := u.Field(i)
			out = append(out, flattenType(f.Type(), joinPath(prefix, f.Name()))...)
		}
		return out
	case *types.Array:
		el := flattenType(u.Elem(), "")
		var out []Leaf
		ek := elemKey(u.Elem())
		for _, e := range el {
			if e.InArr {
				panic("flatten: nested arrays unsupported: " + t.String())
			}
			out = append(out, Leaf{Path: joinPath(prefix, e.Path), Sort: arrSort(sBV64, e.Sort), Kind: e.Kind, GoT: e.GoT,
				InArr: true, ElSort: e.Sort, ArrPath: prefix, ArrLen: u.Len(), ElemKey: ek, ElemSub: e.Path, Width: e.Width, Signed: e.Signed})
		}
		return out
	case *types.Tuple:
		var out []Leaf
		for i := 0; i < u.Len(); i++ {
			out = append(out, flattenType(u.At(i).Type(), joinPath(prefix, fmt.Sprintf("#%d", i)))...)
		}
		return out
	}
	panic("flatten: unsupported type " + t.String())
}

func intWidth(b *types.Basic) int {
	switch b.Kind() {
	case types.Int8, types.Uint8:
		return 8
	case types.Int16, types.Uint16:
		return 16
	case types.Int32, types.Uint32:
		return 32
	case types.Int64, types.Uint64, types.Int, types.Uint, types.Uintptr, types.UntypedInt, types.UntypedRune:
		return 64
	}
	panic("intWidth " + b.String())
}

func isSigned(t types.Type) bool {
	b, ok := t.Underlying().(*types.Basic)
	return ok && b.Info()&types.IsInteger != 0 && b.Info()&types.IsUnsigned == 0
}

func isInteger(t types.Type) bool {
	b, ok := t.Underlying().(*types.Basic)
	return ok && b.Info()&types.IsInteger != 0
}

func isFloat(t types.Type) bool {
	b, ok := t.Underlying().(*types.Basic)
	return ok && b.Info()&types.IsFloat != 0
}

func isString(t types.Type) bool {
	b, ok := t.Underlying().(*types.Basic)
	return ok && b.Info()&types.IsString != 0
}

func isBool(t types.Type) bool {
	b, ok := t.Underlying().(*types.Basic)
	return ok && b.Info()&types.IsBoolean != 0
}

func widthOf(t types.Type) int {
	return intWidth(t.Underlying().(*types.Basic))
}

// elemKey names the element heap used for arrays of element type t.
func elemKey(t types.Type) string {
	// all byte-like unnamed/alias types share a heap; named types get their own
	return shortTypeName(t)
}

// structKey names the object heap family for objects of type t (the pointee).
func structKey(t types.Type) string {
	return shortTypeName(t)
}

// ---------------------------------------------------------------------------
// Type tags for interfaces.

type TypeTags struct {
	byKey map[string]int
	types []types.Type
	byID  map[int]types.Type
}

func newTypeTags() *TypeTags {
	return &TypeTags{byKey: map[string]int{}, types: []types.Type{nil}, byID: map[int]types.Type{}}
}

func (tt *TypeTags) tagNamed(k string) int {
	if id, ok := tt.byKey[k]; ok {
		return id
	}
	id := len(tt.types)
	tt.byKey[k] = id
	tt.types = append(tt.types, nil)
	return id
}

// tag numbers the Go types that occur as dynamic types of interface values. Only equality of tags is
// meaningful, except that bits 20..23 hold the number of bytes encoding/binary writes for a value of the type
// (fixed-size integer, float and bool types; 0 otherwise), so that this size is a function of the tag.
func (tt *TypeTags) tag(t types.Type) int {
	k := typeKey(t)
	if id, ok := tt.byKey[k]; ok {
		return id
	}
	id := len(tt.types) | fixedBinarySize(t)<<20
	tt.byKey[k] = id
	tt.types = append(tt.types, t)
	tt.byID[id] = t
	return id
}

func fixedBinarySize(t types.Type) int {
	if b, ok := t.Underlying().(*types.Basic); ok {
		switch b.Kind() {
		case types.Bool, types.Int8, types.Uint8:
			return 1
		case types.Int16, types.Uint16:
			return 2
		case types.Int32, types.Uint32, types.Float32:
			return 4
		case types.Int64, types.Uint64, types.Float64:
			return 8
		}
	}
	return 0
}

// ---------------------------------------------------------------------------
// Heap state: a mapping from heap array name to its current SMT term.

type HeapDecl struct {
	Name string
	Sort string
}

type Heap struct {
	m map[string]string // heap name -> current term
}

func newHeap() *Heap { return &Heap{m: map[string]string{}} }

func (h *Heap) clone() *Heap {
	n := newHeap()
	for k, v := range h.m {
		n.m[k] = v
	}
	return n
}

func (h *Heap) names() []string {
	var ns []string
	for k := range h.m {
		ns = append(ns, k)
	}
	sort.Strings(ns)
	return ns
}

func objHeapName(skey, path string) string  { return "H!" + skey + "!" + path }
func elemHeapName(ekey, path string) string { return "A!" + ekey + "!" + path }
func globHeapName(g string) string          { return "G!" + g }
func ghostHeapName(g string) string         { return "Z!" + g }

// aidOf derives the array id of an array embedded in object ref at field index k.
func aidOf(ref string, k int) string {
	return fmt.Sprintf("(concat ((_ extract 47 0) %s) (_ bv%d 16))", ref, k)
}

// embedded-array field numbering (global, stable by sorted registration order
// is not needed: numbering is per run and only used for disjointness).
var arrFieldIdx = map[string]int{}

func arrFieldIndex(skey, path string) int {
	k := skey + "!" + path
	if i, ok := arrFieldIdx[k]; ok {
		return i
	}
	i := len(arrFieldIdx) + 1
	arrFieldIdx[k] = i
	return i
}
