package main

// Assumed contracts of package reflect (documented panic conditions as
// preconditions, documented effects on an abstract per-object field store).
//
// A reflect.Value is (obj, mt, fld, idx, cls, wid, ecls, ewid, ttag):
//   obj  reference of the storage viewed (message struct object or slice storage)
//   mt   message number for message (field) values, rvPlain for wrapped plain
//        values, rvSliceV / rvElemV for MakeSlice results and their elements,
//        rvInvalid for the zero Value
//   fld  struct field index (all ones: the whole value)   idx  element index
//   cls, wid, ecls, ewid, ttag: kind class, bit width, element class/width and
//        Go type tag of the viewed value (from the tables extracted from go/types)

import (
	"fmt"
	"go/types"

	"golang.org/x/tools/go/ssa"
)

const (
	rvInvalid = 0xFFFF
	rvPlain   = 0xFFFE
	rvSliceV  = 0xFFFD
	rvElemV   = 0xFFFC
)

const rtypeMsgBase = 0x2000000000

const (
	iObj = iota
	iMt
	iFld
	iIdx
	iCls
	iWid
	iECls
	iEWid
	iTTag
)

var allOnes64 = bvLit(64, ^uint64(0))

// abstract per-object field store written by the Set* methods
var rvStateHeaps = [][2]string{{"rvInt", sBV64}, {"rvFlt", sF64}, {"rvStrS", sBV64}, {"rvStrO", sBV64}, {"rvStrL", sBV64}, {"rvRef", sBV64}, {"rvOff", sBV64},
	{"rvLen", sBV64}, {"rvNilF", sBV64}, {"rvSrcMt", sBV64}, {"rvTsec", sBV64}, {"rvTns", sBV64}, {"rvTzoff", sBV64}, {"rvTzid", sBV64}}

func rvType() types.Type { return reflectValueType }

var reflectValueType types.Type

func (w *World) findReflectValue() types.Type {
	if reflectValueType != nil {
		return reflectValueType
	}
	for _, p := range w.Pkgs {
		for _, imp := range p.Imports {
			if imp.PkgPath == "reflect" {
				reflectValueType = imp.Types.Scope().Lookup("Value").Type()
				return reflectValueType
			}
		}
	}
	return nil
}

const reflectAssumption = "reflect: documented panic conditions of Field/Index/Set*/MakeSlice/Interface taken as preconditions; Set* store the (width-truncated) value in the addressed field; Values obtained from a message pointer's Elem are settable"

func cellKey(v Val) string { return ite(eq(v.L[iIdx], allOnes64), v.L[iFld], v.L[iIdx]) }

func (vc *VC) rvStore(st *State, name, sort string, v Val, val string) {
	hn := ghostHeapName(name)
	hs := arrSort(sBV64, arrSort(sBV64, sort))
	vc.ghostSorts[hn] = hs
	h := vc.heapTerm(st, hn, hs)
	vc.setHeap(st, hn, hs, sto(h, v.L[iObj], sto(sel(h, v.L[iObj]), cellKey(v), val)))
}

func (vc *VC) rvLoad(st *State, name, sort string, obj, key string) string {
	hn := ghostHeapName(name)
	hs := arrSort(sBV64, arrSort(sBV64, sort))
	vc.ghostSorts[hn] = hs
	return sel(sel(vc.heapTerm(st, hn, hs), obj), key)
}

func truncTo(wid, x string, signed bool) string {
	f := func(n int) string {
		e := fmt.Sprintf("((_ extract %d 0) %s)", n-1, x)
		if signed {
			return fmt.Sprintf("((_ sign_extend %d) %s)", 64-n, e)
		}
		return fmt.Sprintf("((_ zero_extend %d) %s)", 64-n, e)
	}
	return ite(eq(wid, bvLit(64, 8)), f(8), ite(eq(wid, bvLit(64, 16)), f(16), ite(eq(wid, bvLit(64, 32)), f(32), x)))
}

func rvEffects(vc *VC, cc *ssa.CallCommon) []locTarget {
	// precise key when the receiver (or the slice Value it indexes) was computed before the loop
	key := ""
	if vc.effFrame != nil && len(cc.Args) > 0 {
		recv := cc.Args[0]
		if c, ok := recv.(*ssa.Call); ok {
			if f, ok := c.Call.Value.(*ssa.Function); ok && f.String() == "(reflect.Value).Index" {
				recv = c.Call.Args[0]
			}
		}
		if v, ok := vc.effFrame.vals[recv]; ok && len(v.L) > iObj {
			key = v.L[iObj]
		}
	}
	var out []locTarget
	for _, n := range rvStateHeaps {
		hs := arrSort(sBV64, arrSort(sBV64, n[1]))
		vc.ghostSorts[ghostHeapName(n[0])] = hs
		out = append(out, locTarget{name: ghostHeapName(n[0]), sort: hs, whole: key == "", key: key})
	}
	return out
}

func init() {
	for _, m := range []string{"SetUint", "SetInt", "SetFloat", "SetString", "SetBytes", "Set"} {
		externEffectTable["(reflect.Value)."+m] = rvEffects
	}
	reg := func(name string, h externFn) {
		externTable[name] = func(vc *VC, fr *Frame, st *State, call *ssa.CallCommon, args []Val, rt types.Type) Val {
			vc.trusted[reflectAssumption] = true
			vc.declareRVFuncs()
			return h(vc, fr, st, call, args, rt)
		}
	}
	cls := func(c int) string { return bvLit(64, uint64(c)) }
	isSettable := func(v Val) string {
		// message fields and elements of fresh slices are settable
		return or(app("bvult", v.L[iMt], bvLit(64, rvElemV)), eq(v.L[iMt], bvLit(64, rvElemV)))
	}

	reg("(reflect.Value).IsValid", func(vc *VC, fr *Frame, st *State, call *ssa.CallCommon, args []Val, rt types.Type) Val {
		return Val{T: rt, L: []string{not(eq(args[0].L[iMt], bvLit(64, rvInvalid)))}}
	})
	reg("(reflect.Value).Field", func(vc *VC, fr *Frame, st *State, call *ssa.CallCommon, args []Val, rt types.Type) Val {
		v, i := args[0], args[1]
		vc.oblige(st, "pre@reflect.Value.Field", "struct", and(app("bvult", v.L[iMt], bvLit(64, rvElemV)), eq(v.L[iFld], allOnes64), eq(v.L[iCls], cls(clsStruct))), call.Pos(), vc.safetyProps)
		vc.oblige(st, "pre@reflect.Value.Field", "index", and(app("bvsle", bvLit(64, 0), i.L[0]), app("bvslt", i.L[0], app("RVNumField", v.L[iMt]))), call.Pos(), vc.safetyProps)
		m, f := v.L[iMt], i.L[0]
		return Val{T: rt, L: []string{v.L[iObj], m, f, allOnes64, app("RVClass", m, f), app("RVWidth", m, f), app("RVEClass", m, f), app("RVEWidth", m, f), app("RVTypeTag", m, f)}}
	})
	reg("(reflect.Value).NumField", func(vc *VC, fr *Frame, st *State, call *ssa.CallCommon, args []Val, rt types.Type) Val {
		v := args[0]
		vc.declareRVFuncs()
		vc.oblige(st, "pre@reflect.Value.NumField", "struct", and(app("bvult", v.L[iMt], bvLit(64, rvElemV)), eq(v.L[iFld], allOnes64), eq(v.L[iCls], cls(clsStruct))), call.Pos(), vc.safetyProps)
		n := vc.define("rvnf", sBV64, app("RVNumField", v.L[iMt]))
		vc.assume(st.cond, and(app("bvsle", bvLit(64, 0), n), app("bvslt", n, bvLit(64, 1<<16))))
		return Val{T: rt, L: []string{n}}
	})
	// Kind: only reflect.Slice (23) is told apart; every other class yields some other kind
	reg("(reflect.Value).Kind", func(vc *VC, fr *Frame, st *State, call *ssa.CallCommon, args []Val, rt types.Type) Val {
		v := args[0]
		w := widthOf(rt)
		other := vc.freshConst("rvkind", bvSort(w))
		vc.assume(st.cond, not(eq(other, bvLit(w, 23))))
		return Val{T: rt, L: []string{ite(and(not(eq(v.L[iMt], bvLit(64, rvInvalid))), eq(v.L[iCls], cls(clsSlice))), bvLit(w, 23), other)}}
	})
	setNum := func(want int, signed bool, store string) externFn {
		return func(vc *VC, fr *Frame, st *State, call *ssa.CallCommon, args []Val, rt types.Type) Val {
			v, x := args[0], args[1]
			vc.oblige(st, "pre@reflect.Value.Set", fmt.Sprintf("kind%d", want), and(eq(v.L[iCls], cls(want)), isSettable(v)), call.Pos(), vc.safetyProps)
			if store == "rvFlt" {
				vc.rvStore(st, store, sF64, v, ite(eq(v.L[iWid], bvLit(64, 32)), fmt.Sprintf("((_ to_fp 11 53) RNE ((_ to_fp 8 24) RNE %s))", x.L[0]), x.L[0]))
			} else {
				vc.rvStore(st, store, sBV64, v, truncTo(v.L[iWid], x.L[0], signed))
			}
			return Val{T: rt}
		}
	}
	reg("(reflect.Value).SetUint", setNum(clsUint, false, "rvInt"))
	reg("(reflect.Value).SetInt", setNum(clsInt, true, "rvInt"))
	reg("(reflect.Value).SetFloat", setNum(clsFloat, false, "rvFlt"))
	reg("(reflect.Value).SetString", func(vc *VC, fr *Frame, st *State, call *ssa.CallCommon, args []Val, rt types.Type) Val {
		v, x := args[0], args[1]
		vc.oblige(st, "pre@reflect.Value.Set", "string", and(eq(v.L[iCls], cls(clsString)), isSettable(v)), call.Pos(), vc.safetyProps)
		vc.rvStore(st, "rvStrS", sBV64, v, x.L[0])
		vc.rvStore(st, "rvStrO", sBV64, v, x.L[1])
		vc.rvStore(st, "rvStrL", sBV64, v, x.L[2])
		return Val{T: rt}
	})
	reg("(reflect.Value).SetBytes", func(vc *VC, fr *Frame, st *State, call *ssa.CallCommon, args []Val, rt types.Type) Val {
		v, x := args[0], args[1]
		vc.oblige(st, "pre@reflect.Value.Set", "bytes", and(eq(v.L[iCls], cls(clsSlice)), eq(v.L[iECls], cls(clsUint)), eq(v.L[iEWid], bvLit(64, 8)), isSettable(v)), call.Pos(), vc.safetyProps)
		vc.rvStore(st, "rvRef", sBV64, v, x.L[0])
		vc.rvStore(st, "rvOff", sBV64, v, x.L[1])
		vc.rvStore(st, "rvLen", sBV64, v, x.L[2])
		vc.rvStore(st, "rvNilF", sBV64, v, ite(eq(x.L[0], bvLit(64, 0)), bvLit(64, 1), bvLit(64, 0)))
		return Val{T: rt}
	})
	reg("(reflect.Value).Set", func(vc *VC, fr *Frame, st *State, call *ssa.CallCommon, args []Val, rt types.Type) Val {
		v, x := args[0], args[1]
		vc.oblige(st, "pre@reflect.Value.Set", "assignable", and(isSettable(v), not(eq(x.L[iMt], bvLit(64, rvInvalid))), eq(v.L[iTTag], x.L[iTTag])), call.Pos(), vc.safetyProps)
		// effect on the abstract store: record the source value's identity
		vc.rvStore(st, "rvRef", sBV64, v, x.L[iObj])
		vc.rvStore(st, "rvSrcMt", sBV64, v, x.L[iMt])
		// time and coordinate payloads are copied from the boxed plain value
		if true {
			for _, n := range []string{"rvTsec", "rvTns", "rvTzoff", "rvTzid"} {
				vc.rvStore(st, n, sBV64, v, vc.rvLoad(st, "plain!"+n, sBV64, x.L[iObj], bvLit(64, 0)))
			}
			vc.rvStore(st, "rvInt", sBV64, v, ite(or(eq(v.L[iCls], cls(clsLat)), eq(v.L[iCls], cls(clsLng))), vc.rvLoad(st, "plain!rvInt", sBV64, x.L[iObj], bvLit(64, 0)), vc.rvLoad(st, "rvInt", sBV64, v.L[iObj], cellKey(v))))
			vc.rvStore(st, "rvLen", sBV64, v, vc.rvLoad(st, "plain!rvLen", sBV64, x.L[iObj], bvLit(64, 0)))
			// whether the assigned slice is nil is not tracked: unspecified afterwards
			vc.rvStore(st, "rvNilF", sBV64, v, vc.freshConst("rvnilset", sBV64))
		}
		return Val{T: rt}
	})
	reg("reflect.ValueOf", func(vc *VC, fr *Frame, st *State, call *ssa.CallCommon, args []Val, rt types.Type) Val {
		x := args[0]
		// plain value: identity is the box; record time / coordinate / slice payloads
		src := call.Args[0]
		obj := vc.freshConst("rvplain", sBV64)
		vc.assume(st.cond, and(app("bvuge", obj, bvLit(64, 1<<47)))) // disjoint from object references
		if mi, ok := src.(*ssa.MakeInterface); ok {
			pv := vc.value(fr, mi.X)
			// a message struct passed by value: the Value views a copy of the message
			if num, isMsg := vc.w.msgNumOfType(pv.T); isMsg {
				ref := vc.allocRef(st)
				vc.storeDesc(st, &PtrDesc{Root: rObj, Ref: ref, RootT: pv.T, T: pv.T}, pv)
				return Val{T: rt, L: []string{ref, bvLit(64, uint64(num)), allOnes64, allOnes64, cls(clsStruct), bvLit(64, 0), cls(0), bvLit(64, 0), bvLit(64, uint64(vc.w.tags.tag(pv.T)))}}
			}
			// a pointer to a message struct: remembered so that Indirect / Elem can follow it
			if pt, ok := pv.T.Underlying().(*types.Pointer); ok {
				if _, isMsg := vc.w.msgNumOfType(pt.Elem()); isMsg {
					hn := ghostHeapName("plain!rvPtr")
					hs := arrSort(sBV64, sBV64)
					vc.ghostSorts[hn] = hs
					vc.setHeap(st, hn, hs, sto(vc.heapTerm(st, hn, hs), obj, pv.L[0]))
					return Val{T: rt, L: []string{obj, bvLit(64, rvPlain), allOnes64, allOnes64, cls(clsOther), bvLit(64, 0), cls(0), bvLit(64, 0), bvLit(64, uint64(vc.w.tags.tag(pv.T)))}}
				}
			}
			c, w := classifyType(pv.T)
			set := func(n, val string) {
				hn := ghostHeapName("plain!" + n)
				hs := arrSort(sBV64, arrSort(sBV64, sBV64))
				vc.ghostSorts[hn] = hs
				h := vc.heapTerm(st, hn, hs)
				vc.setHeap(st, hn, hs, sto(h, obj, sto(sel(h, obj), bvLit(64, 0), val)))
			}
			switch c {
			case clsTime:
				set("rvTsec", pv.L[0])
				set("rvTns", pv.L[1])
				set("rvTzoff", pv.L[2])
				set("rvTzid", pv.L[3])
			case clsLat, clsLng:
				set("rvInt", bvExtend(pv.L[0], 32, 64, true))
			case clsSlice:
				set("rvLen", pv.L[2])
				set("rvNilF", ite(eq(pv.L[0], bvLit(64, 0)), bvLit(64, 1), bvLit(64, 0)))
			}
			ec, ew := 0, 0
			if slt, ok := pv.T.Underlying().(*types.Slice); ok {
				ec, ew = classifyType(slt.Elem())
			}
			return Val{T: rt, L: []string{obj, bvLit(64, rvPlain), allOnes64, allOnes64, cls(c), bvLit(64, uint64(w)), cls(ec), bvLit(64, uint64(ew)), bvLit(64, uint64(vc.w.tags.tag(pv.T)))}}
		}
		// dynamic: unknown class
		return Val{T: rt, L: []string{obj, ite(eq(x.L[0], bvLit(64, 0)), bvLit(64, rvInvalid), bvLit(64, rvPlain)), allOnes64, allOnes64,
			vc.freshConst("rvcls", sBV64), vc.freshConst("rvwid", sBV64), vc.freshConst("rvecls", sBV64), vc.freshConst("rvewid", sBV64), x.L[0]}}
	})
	reg("(reflect.Value).Type", func(vc *VC, fr *Frame, st *State, call *ssa.CallCommon, args []Val, rt types.Type) Val {
		v := args[0]
		vc.oblige(st, "pre@reflect.Value.Type", "valid", not(eq(v.L[iMt], bvLit(64, rvInvalid))), call.Pos(), vc.safetyProps)
		// the type of a Value that views a whole message is identified by the message number (rtypeMsgBase+mt):
		// equal types have equal identities, which is all reflect.Type's == observes here
		fresh := vc.freshConst("rtype", sBV64)
		vc.assume(st.cond, app("bvult", fresh, bvLit(64, rtypeMsgBase)))
		id := vc.define("rtid", sBV64, ite(and(app("bvult", v.L[iMt], bvLit(64, rvElemV)), eq(v.L[iFld], allOnes64)), app("bvadd", bvLit(64, rtypeMsgBase), v.L[iMt]), fresh))
		vc.rtypeOf[id] = v
		return Val{T: rt, L: []string{bvLit(64, uint64(vc.w.tags.tagNamed("extern:reflect.rtype"))), id}}
	})
	reg("reflect.MakeSlice", func(vc *VC, fr *Frame, st *State, call *ssa.CallCommon, args []Val, rt types.Type) Val {
		typ, ln, cp := args[0], args[1], args[2]
		src, ok := vc.rtypeOf[typ.L[1]]
		if !ok {
			vc.unsupported("reflect.MakeSlice with a type that does not come from Value.Type()")
		}
		vc.oblige(st, "pre@reflect.MakeSlice", "slicekind", eq(src.L[iCls], cls(clsSlice)), call.Pos(), vc.safetyProps)
		vc.oblige(st, "pre@reflect.MakeSlice", "len", and(app("bvsle", bvLit(64, 0), ln.L[0]), app("bvsle", ln.L[0], cp.L[0])), call.Pos(), vc.safetyProps)
		obj := vc.allocRef(st)
		hn := ghostHeapName("rvSliceLen")
		hs := arrSort(sBV64, sBV64)
		vc.ghostSorts[hn] = hs
		vc.setHeap(st, hn, hs, sto(vc.heapTerm(st, hn, hs), obj, ln.L[0]))
		hn2 := ghostHeapName("plain!rvLen")
		hs2 := arrSort(sBV64, arrSort(sBV64, sBV64))
		vc.ghostSorts[hn2] = hs2
		h2 := vc.heapTerm(st, hn2, hs2)
		vc.setHeap(st, hn2, hs2, sto(h2, obj, sto(sel(h2, obj), bvLit(64, 0), ln.L[0])))
		return Val{T: rt, L: []string{obj, bvLit(64, rvSliceV), allOnes64, allOnes64, cls(clsSlice), bvLit(64, 0), src.L[iECls], src.L[iEWid], src.L[iTTag]}}
	})
	// length of the slice a Value holds: a slice made by reflect.MakeSlice, or the slice stored in a struct field
	rvLenOf := func(vc *VC, st *State, v Val) string {
		hn := ghostHeapName("rvSliceLen")
		hs := arrSort(sBV64, sBV64)
		vc.ghostSorts[hn] = hs
		made := sel(vc.heapTerm(st, hn, hs), v.L[iObj])
		field := vc.rvLoad(st, "rvLen", sBV64, v.L[iObj], cellKey(v))
		ln := vc.define("rvlen", sBV64, ite(eq(v.L[iMt], bvLit(64, rvSliceV)), made, field))
		vc.assume(st.cond, and(app("bvsle", bvLit(64, 0), ln), app("bvslt", ln, bvLit(64, 1<<40))))
		return ln
	}
	reg("(reflect.Value).Len", func(vc *VC, fr *Frame, st *State, call *ssa.CallCommon, args []Val, rt types.Type) Val {
		v := args[0]
		vc.oblige(st, "pre@reflect.Value.Len", "slice", and(not(eq(v.L[iMt], bvLit(64, rvInvalid))), eq(v.L[iCls], cls(clsSlice))), call.Pos(), vc.safetyProps)
		return Val{T: rt, L: []string{rvLenOf(vc, st, v)}}
	})
	// IsNil of a slice: a function of the viewed cell (ghost attribute rvNilF, left unspecified), except that a
	// nil slice is empty
	reg("(reflect.Value).IsNil", func(vc *VC, fr *Frame, st *State, call *ssa.CallCommon, args []Val, rt types.Type) Val {
		v := args[0]
		vc.oblige(st, "pre@reflect.Value.IsNil", "slice", and(not(eq(v.L[iMt], bvLit(64, rvInvalid))), eq(v.L[iCls], cls(clsSlice))), call.Pos(), vc.safetyProps)
		isnil := vc.define("rvnil", sBool, not(eq(vc.rvLoad(st, "rvNilF", sBV64, v.L[iObj], cellKey(v)), bvLit(64, 0))))
		vc.assume(st.cond, imp(isnil, eq(rvLenOf(vc, st, v), bvLit(64, 0))))
		return Val{T: rt, L: []string{isnil}}
	})
	reg("(reflect.Value).Index", func(vc *VC, fr *Frame, st *State, call *ssa.CallCommon, args []Val, rt types.Type) Val {
		v, i := args[0], args[1]
		ln := rvLenOf(vc, st, v)
		vc.oblige(st, "pre@reflect.Value.Index", "range", and(eq(v.L[iCls], cls(clsSlice)), not(eq(v.L[iMt], bvLit(64, rvInvalid))), app("bvsle", bvLit(64, 0), i.L[0]), app("bvslt", i.L[0], ln)), call.Pos(), vc.safetyProps)
		// elements of a made slice live in the slice object; elements of a field's slice in an object of their own
		obj := ite(eq(v.L[iMt], bvLit(64, rvSliceV)), v.L[iObj], vc.freshConst("rvelems", sBV64))
		// elements of a field's slice carry a synthetic type tag (class and width): their size on the wire is known
		etag := synthElemTag(v.L[iECls], v.L[iEWid])
		return Val{T: rt, L: []string{obj, bvLit(64, rvElemV), allOnes64, i.L[0], v.L[iECls], v.L[iEWid], cls(clsOther), bvLit(64, 0), etag}}
	})
	reg("(reflect.Value).Interface", func(vc *VC, fr *Frame, st *State, call *ssa.CallCommon, args []Val, rt types.Type) Val {
		v := args[0]
		vc.oblige(st, "pre@reflect.Value.Interface", "valid", not(eq(v.L[iMt], bvLit(64, rvInvalid))), call.Pos(), vc.safetyProps)
		return vc.rvInterface(v)
	})
	// reflect.Indirect(v): v itself unless it wraps a pointer to a message struct; then the message it points to
	// (the zero Value for a nil pointer). Other pointer Values are outside the model.
	reg("reflect.Indirect", func(vc *VC, fr *Frame, st *State, call *ssa.CallCommon, args []Val, rt types.Type) Val {
		v := args[0]
		vc.ptrMsgAxioms()
		isPtr := and(eq(v.L[iMt], bvLit(64, rvPlain)), app("bvult", app("RVPtrMsg", v.L[iTTag]), bvLit(64, 0xFF00)))
		vc.oblige(st, "pre@reflect.Indirect", "message", or(eq(v.L[iCls], cls(clsStruct)), isPtr, eq(v.L[iMt], bvLit(64, rvInvalid))), call.Pos(), vc.safetyProps)
		hn := ghostHeapName("plain!rvPtr")
		hs := arrSort(sBV64, sBV64)
		vc.ghostSorts[hn] = hs
		p := sel(vc.heapTerm(st, hn, hs), v.L[iObj])
		mt := app("RVPtrMsg", v.L[iTTag])
		el := []string{p, ite(eq(p, bvLit(64, 0)), bvLit(64, rvInvalid), mt), allOnes64, allOnes64, cls(clsStruct), bvLit(64, 0), cls(0), bvLit(64, 0), app("RVTag", mt)}
		out := Val{T: rt}
		for k := range v.L {
			out.L = append(out.L, ite(isPtr, el[k], v.L[k]))
		}
		return out
	})
	reg("(reflect.Value).Elem", func(vc *VC, fr *Frame, st *State, call *ssa.CallCommon, args []Val, rt types.Type) Val {
		vc.unsupported("reflect.Value.Elem outside getMesgAllInvalid")
		return Val{}
	})
}
