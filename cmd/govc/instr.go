package main

import (
	"fmt"
	"go/token"
	"go/types"
	"strings"

	"golang.org/x/tools/go/ssa"
)

func (vc *VC) execInstr(fr *Frame, instr ssa.Instruction, st *State) {
	switch x := instr.(type) {
	case *ssa.DebugRef:
		return
	case *ssa.Alloc:
		vc.execAlloc(fr, x, st)
	case *ssa.FieldAddr:
		d := vc.desc(fr, x.X)
		if d.Root == rObj && !d.InElem && d.Path == "" {
			// dereference of an object pointer: nil check
			vc.nilCheck(st, d.Ref, x.Pos())
		}
		stt := deref(x.X.Type()).Underlying().(*types.Struct)
		f := stt.Field(x.Field)
		nd := *d
		if d.InElem || len(d.GIdx) > 0 {
			nd.Sub = joinPath(d.Sub, f.Name())
		} else {
			nd.Path = joinPath(d.Path, f.Name())
		}
		nd.T = f.Type()
		fr.ptrs[x] = &nd
	case *ssa.IndexAddr:
		idx := vc.value(fr, x.Index)
		i64 := bvExtend(idx.L[0], widthOf(idx.T), 64, isSigned(idx.T))
		switch bt := x.X.Type().Underlying().(type) {
		case *types.Slice:
			sv := vc.value(fr, x.X)
			vc.oblige(st, "bounds", "", app("bvult", i64, sv.L[2]), x.Pos(), vc.safetyProps)
			fr.ptrs[x] = &PtrDesc{InElem: true, Aid: sv.L[0], Idx: vc.define("ix", sBV64, app("bvadd", sv.L[1], i64)), ElemT: bt.Elem(), T: bt.Elem()}
		case *types.Pointer:
			at := bt.Elem().Underlying().(*types.Array)
			d := vc.desc(fr, x.X)
			if d.Root == rObj && !d.InElem && d.Path == "" {
				vc.nilCheck(st, d.Ref, x.Pos())
			}
			vc.oblige(st, "bounds", "", app("bvult", i64, bvLit(64, uint64(at.Len()))), x.Pos(), vc.safetyProps)
			fr.ptrs[x] = vc.indexDesc(d, at, i64)
		default:
			vc.unsupported("IndexAddr on %s", x.X.Type())
		}
	case *ssa.Index:
		idx := vc.value(fr, x.Index)
		i64 := bvExtend(idx.L[0], widthOf(idx.T), 64, isSigned(idx.T))
		base := vc.value(fr, x.X)
		switch bt := x.X.Type().Underlying().(type) {
		case *types.Array:
			vc.oblige(st, "bounds", "", app("bvult", i64, bvLit(64, uint64(bt.Len()))), x.Pos(), vc.safetyProps)
			v := Val{T: bt.Elem()}
			for k := range base.L {
				v.L = append(v.L, sel(base.L[k], i64))
			}
			vc.setVal(fr, x, v)
		case *types.Basic: // string
			vc.oblige(st, "bounds", "", app("bvult", i64, base.L[2]), x.Pos(), vc.safetyProps)
			vc.setVal(fr, x, Val{T: x.Type(), L: []string{vc.strByte(base, i64)}})
		default:
			vc.unsupported("Index on %s", x.X.Type())
		}
	case *ssa.UnOp:
		vc.execUnOp(fr, x, st)
	case *ssa.Store:
		d := vc.desc(fr, x.Addr)
		if d.Root == rObj && !d.InElem && d.Path == "" {
			vc.nilCheck(st, d.Ref, x.Pos())
		}
		v := vc.value(fr, x.Val)
		if _, ok := x.Val.Type().Underlying().(*types.Pointer); ok {
			if _, interior := fr.ptrs[x.Val]; interior {
				if _, isAlloc := x.Val.(*ssa.Alloc); !isAlloc {
					vc.unsupported("interior pointer stored to memory in %s", fr.fn)
				}
			}
		}
		vc.storeDesc(st, d, v)
	case *ssa.BinOp:
		a := vc.value(fr, x.X)
		b := vc.value(fr, x.Y)
		if x.Op == token.QUO && len(a.L) == 1 {
			if parts, ok := vc.durParts[a.L[0]]; ok {
				if c, ok := x.Y.(*ssa.Const); ok && c.Value != nil && c.Value.ExactString() == "1000000000" {
					// (ds*1e9 + dns) / 1e9 with |dns| < 1e9, truncated toward zero
					ds, dns := parts[0], parts[1]
					z := bvLit(64, 0)
					r := ite(and(app("bvslt", ds, z), app("bvsgt", dns, z)), app("bvadd", ds, bvLit(64, 1)),
						ite(and(app("bvsgt", ds, z), app("bvslt", dns, z)), app("bvsub", ds, bvLit(64, 1)), ds))
					vc.setVal(fr, x, Val{T: x.Type(), L: []string{r}})
					return
				}
			}
		}
		if (x.Op == token.QUO || x.Op == token.REM) && isInteger(a.T) {
			vc.oblige(st, "div0", "", not(eq(b.L[0], bvLit(widthOf(b.T), 0))), x.Pos(), vc.safetyProps)
		}
		if (x.Op == token.SHL || x.Op == token.SHR) && isSigned(b.T) {
			vc.oblige(st, "shift", "", app("bvsge", b.L[0], bvLit(widthOf(b.T), 0)), x.Pos(), vc.safetyProps)
		}
		r, err := vc.binop(x.Op, a, b, x.Type())
		if err != nil {
			vc.unsupported("%v in %s", err, fr.fn)
		}
		vc.setVal(fr, x, r)
	case *ssa.Convert:
		v := vc.value(fr, x.X)
		if slt, ok := v.T.Underlying().(*types.Slice); ok && isString(x.Type()) {
			_ = slt
			vc.setVal(fr, x, vc.bytesToString(st, v, x.Type()))
			return
		}
		if isString(v.T) {
			if _, ok := x.Type().Underlying().(*types.Slice); ok {
				vc.setVal(fr, x, vc.stringToBytes(st, v, x.Type()))
				return
			}
		}
		r, err := vc.convert(v, x.Type())
		if err != nil {
			vc.unsupported("%v in %s", err, fr.fn)
		}
		vc.setVal(fr, x, r)
	case *ssa.ChangeType:
		v := vc.value(fr, x.X)
		vc.setVal(fr, x, Val{T: x.Type(), L: v.L})
	case *ssa.ChangeInterface:
		v := vc.value(fr, x.X)
		vc.setVal(fr, x, Val{T: x.Type(), L: v.L})
	case *ssa.MakeInterface:
		if _, isPtr := x.X.Type().Underlying().(*types.Pointer); isPtr {
			if d, interior := fr.ptrs[x.X]; interior {
				if _, isAlloc := x.X.(*ssa.Alloc); !isAlloc {
					// interface holding an interior pointer: remember the location statically
					id := vc.freshConst("iptr", sBV64)
					vc.ifacePtr[id] = d
					vc.setVal(fr, x, Val{T: x.Type(), L: []string{bvLit(64, uint64(vc.w.tags.tag(x.X.Type()))), id}})
					return
				}
			}
		}
		vc.setVal(fr, x, vc.makeInterface(st, vc.value(fr, x.X), x.X, x.Type()))
	case *ssa.TypeAssert:
		vc.execTypeAssert(fr, x, st)
	case *ssa.Extract:
		tv := vc.value(fr, x.Tuple)
		tup := x.Tuple.Type().(*types.Tuple)
		off := 0
		for i := 0; i < x.Index; i++ {
			off += len(layoutOf(tup.At(i).Type()).Leaves)
		}
		n := len(layoutOf(tup.At(x.Index).Type()).Leaves)
		vc.setVal(fr, x, Val{T: x.Type(), L: tv.L[off : off+n]})
	case *ssa.Field:
		sv := vc.value(fr, x.X)
		stt := x.X.Type().Underlying().(*types.Struct)
		vc.setVal(fr, x, fieldOfVal(sv, stt, x.Field))
	case *ssa.Slice:
		vc.execSlice(fr, x, st)
	case *ssa.MakeSlice:
		ln := vc.value(fr, x.Len)
		cp := vc.value(fr, x.Cap)
		l64 := bvExtend(ln.L[0], widthOf(ln.T), 64, isSigned(ln.T))
		c64 := bvExtend(cp.L[0], widthOf(cp.T), 64, isSigned(cp.T))
		vc.oblige(st, "makeslice", "", and(app("bvsle", bvLit(64, 0), l64), app("bvsle", l64, c64), app("bvslt", c64, bvLit(64, 1<<40))), x.Pos(), vc.safetyProps)
		ref := vc.allocRef(st)
		aid := aidOf(ref, 0)
		aidn := vc.define("aid", sBV64, aid)
		vc.freshKeys[aidn] = true
		et := x.Type().Underlying().(*types.Slice).Elem()
		for _, l := range layoutOf(et).Leaves {
			hn := elemHeapName(elemKey(et), l.Path)
			hs := arrSort(sBV64, arrSort(sBV64, l.Sort))
			h := vc.heapTerm(st, hn, hs)
			vc.setHeap(st, hn, hs, sto(h, aidn, zeroOfSort(arrSort(sBV64, l.Sort))))
		}
		vc.setVal(fr, x, Val{T: x.Type(), L: []string{aidn, bvLit(64, 0), l64, c64}})
	case *ssa.MakeMap:
		ref := vc.allocRef(st)
		mt := x.Type().Underlying().(*types.Map)
		vc.mapInit(st, ref, mt)
		vc.setVal(fr, x, Val{T: x.Type(), L: []string{ref}})
	case *ssa.MapUpdate:
		m := vc.value(fr, x.Map)
		vc.oblige(st, "nilmap", "", not(eq(m.L[0], bvLit(64, 0))), x.Pos(), vc.safetyProps)
		vc.mapUpdate(st, m, vc.value(fr, x.Key), vc.value(fr, x.Value), x.Map.Type().Underlying().(*types.Map))
	case *ssa.Lookup:
		base := vc.value(fr, x.X)
		if mt, ok := x.X.Type().Underlying().(*types.Map); ok {
			v := vc.mapLookupOk(st, base, vc.value(fr, x.Index), mt)
			if x.CommaOk {
				vc.setVal(fr, x, v)
			} else {
				vc.setVal(fr, x, Val{T: x.Type(), L: v.L[:len(v.L)-1]})
			}
			return
		}
		vc.unsupported("Lookup on %s", x.X.Type())
	case *ssa.MakeClosure:
		fn := x.Fn.(*ssa.Function)
		vc.setVal(fr, x, Val{T: x.Type(), L: []string{bvLit(64, uint64(vc.w.funcId(fn)))}})
		vc.w.closureBindings[x] = x.Bindings
	case *ssa.Call:
		res := vc.execCall(fr, x, &x.Call, st)
		if x.Type() != nil {
			if tup, ok := x.Type().(*types.Tuple); ok && tup.Len() == 0 {
				return
			}
			vc.setVal(fr, x, res)
		}
	case *ssa.Defer:
		var args []Val
		for _, a := range x.Call.Args {
			args = append(args, vc.value(fr, a))
		}
		fr.deferSt = append(fr.deferSt, deferRec{instr: x, cond: st.cond, args: args})
	case *ssa.RunDefers:
		for i := len(fr.deferSt) - 1; i >= 0; i-- {
			dr := fr.deferSt[i]
			// the deferred call runs iff the defer statement was executed on this path
			sub := st.clone()
			sub.cond = and(st.cond, dr.cond)
			before := st.clone()
			vc.execCall(fr, nil, &dr.instr.Call, sub)
			// merge: effects apply only where dr.cond held
			merged := vc.mergeStates([]*State{sub, before}, []string{sub.cond, and(st.cond, not(dr.cond))})
			merged.cond = st.cond
			*st = *merged
		}
	case *ssa.Range:
		vc.execRange(fr, x, st)
	case *ssa.Next:
		vc.execNext(fr, x, st)
	case *ssa.SliceToArrayPointer:
		vc.unsupported("SliceToArrayPointer")
	case *ssa.Go, *ssa.Select, *ssa.Send:
		vc.unsupported("concurrency instruction %T in %s", x, fr.fn)
	default:
		vc.unsupported("instruction %T in %s", instr, fr.fn)
	}
}

func deref(t types.Type) types.Type {
	if p, ok := t.Underlying().(*types.Pointer); ok {
		return p.Elem()
	}
	return t
}

func (vc *VC) nilCheck(st *State, ref string, pos token.Pos) {
	if strings.HasPrefix(ref, "alloc!") || vc.nonNil[ref] {
		return
	}
	vc.oblige(st, "nil", "", not(eq(ref, bvLit(64, 0))), pos, vc.safetyProps)
}

// allocRef returns a fresh object reference and advances the allocation counter.
func (vc *VC) allocRef(st *State) string {
	r := vc.freshConst("alloc", sBV64)
	vc.script = append(vc.script, "(assert (= "+r+" "+st.alloc+"))")
	na := vc.freshConst("al", sBV64)
	vc.script = append(vc.script, "(assert (= "+na+" (bvadd "+st.alloc+" (_ bv1 64))))")
	st.alloc = na
	vc.nonNil[r] = true
	vc.freshKeys[r] = true
	vc.freshKeys[aidOf(r, 0)] = true
	return r
}

func (vc *VC) execAlloc(fr *Frame, x *ssa.Alloc, st *State) {
	t := x.Type().(*types.Pointer).Elem()
	ref := vc.allocRef(st)
	d := &PtrDesc{Root: rObj, Ref: ref, RootT: t, T: t}
	vc.storeDesc(st, d, vc.zeroVal(t))
	fr.vals[x] = Val{T: x.Type(), L: []string{ref}}
	if n, ok := isOpaqueNamed(t); ok && n == "bytes.Buffer" {
		vc.setGhost(st, "wpos", ref, sBV64, bvLit(64, 0)) // an empty buffer
	}
}

func (vc *VC) execUnOp(fr *Frame, x *ssa.UnOp, st *State) {
	switch x.Op {
	case token.MUL: // load
		d := vc.desc(fr, x.X)
		if d.Root == rObj && !d.InElem && d.Path == "" {
			vc.nilCheck(st, d.Ref, x.Pos())
		}
		v := vc.loadDesc(st, d)
		vc.setVal(fr, x, v)
		vc.assumeWellFormedAt(st, fr.vals[x], vc.loadBound(st, d))
	case token.NOT:
		vc.setVal(fr, x, Val{T: x.Type(), L: []string{not(vc.value(fr, x.X).L[0])}})
	case token.SUB:
		v := vc.value(fr, x.X)
		if isFloat(v.T) {
			vc.setVal(fr, x, Val{T: x.Type(), L: []string{app("fp.neg", v.L[0])}})
		} else {
			vc.setVal(fr, x, Val{T: x.Type(), L: []string{app("bvneg", v.L[0])}})
		}
	case token.XOR:
		vc.setVal(fr, x, Val{T: x.Type(), L: []string{app("bvnot", vc.value(fr, x.X).L[0])}})
	default:
		vc.unsupported("unary op %s", x.Op)
	}
}

// assumeWellFormed adds the typing invariants of values obtained from memory
// or from parameters: pointers are below the allocation counter, slices have
// 0 <= len <= cap and a sane extent.
func (vc *VC) assumeWellFormed(st *State, v Val) {
	vc.assumeWellFormedAt(st, v, st.alloc)
}

// loadBound: values read from a heap that is unchanged since function entry
// were allocated before entry.
func (vc *VC) loadBound(st *State, d *PtrDesc) string {
	if vc.entry == nil {
		return st.alloc
	}
	if d.Root == rGlobal {
		gi := vc.w.globalInfoOf(d.Glob)
		if gi.immutable {
			return vc.entry.alloc
		}
		t := d.Glob.Type().(*types.Pointer).Elem()
		for k := range nestedLeafSorts(t) {
			hn := fmt.Sprintf("%s!%d", globHeapName(globalName(d.Glob)), k)
			if cur, ok := st.heap.m[hn]; ok && cur != smtName(hn) {
				return st.alloc
			}
		}
		return vc.entry.alloc
	}
	for _, ll := range vc.leafLocs(d) {
		if cur, ok := st.heap.m[ll.name]; ok && cur != smtName(ll.name) {
			return st.alloc
		}
	}
	return vc.entry.alloc
}

func (vc *VC) assumeWellFormedAt(st *State, v Val, bound string) {
	lay := layoutOf(v.T)
	for k, l := range lay.Leaves {
		if l.InArr {
			continue
		}
		switch l.Kind {
		case lkRef:
			vc.assume(st.cond, app("bvult", v.L[k], bound))
		case lkSlLen:
			ln, cp, off := v.L[k], v.L[k+1], v.L[k-1]
			vc.assume(st.cond, and(app("bvsle", bvLit(64, 0), ln), app("bvsle", ln, cp), app("bvslt", cp, bvLit(64, 1<<40)),
				app("bvsle", bvLit(64, 0), off), app("bvslt", off, bvLit(64, 1<<40))))
		case lkSlAid:
			vc.assume(st.cond, app("bvult", "((_ zero_extend 16) ((_ extract 63 16) "+v.L[k]+"))", bound))
		case lkStrLen:
			vc.assume(st.cond, and(app("bvsle", bvLit(64, 0), v.L[k]), app("bvslt", v.L[k], bvLit(64, 1<<40))))
		case lkIfData:
			vc.assume(st.cond, app("bvult", v.L[k], bound))
		case lkOpaque:
			if strings.HasSuffix(l.Path, "#rv.mt") {
				vc.assume(st.cond, app("bvule", v.L[k], bvLit(64, 0xFFFF)))
			}
			if strings.HasSuffix(l.Path, "#rv.obj") {
				// the object behind a Value is an existing heap object or the box of a plain value (ids >= 2^47)
				vc.assume(st.cond, or(app("bvult", v.L[k], bound), app("bvuge", v.L[k], bvLit(64, 1<<47))))
			}
			if strings.HasSuffix(l.Path, "#t.ns") {
				vc.assume(st.cond, and(app("bvsle", bvLit(64, 0), v.L[k]), app("bvslt", v.L[k], bvLit(64, 1000000000))))
			}
		}
	}
}

func (vc *VC) execSlice(fr *Frame, x *ssa.Slice, st *State) {
	get := func(v ssa.Value) string {
		if v == nil {
			return ""
		}
		val := vc.value(fr, v)
		return bvExtend(val.L[0], widthOf(val.T), 64, isSigned(val.T))
	}
	lo, hi, mx := get(x.Low), get(x.High), get(x.Max)
	if lo == "" {
		lo = bvLit(64, 0)
	}
	switch bt := x.X.Type().Underlying().(type) {
	case *types.Slice:
		sv := vc.value(fr, x.X)
		if hi == "" {
			hi = sv.L[2]
		}
		capv := sv.L[3]
		if mx != "" {
			vc.unsupported("3-index slice")
		}
		vc.oblige(st, "slice", "", and(app("bvule", lo, hi), app("bvule", hi, capv)), x.Pos(), vc.safetyProps)
		vc.setVal(fr, x, Val{T: x.Type(), L: []string{sv.L[0], app("bvadd", sv.L[1], lo), app("bvsub", hi, lo), app("bvsub", capv, lo)}})
	case *types.Basic: // string
		sv := vc.value(fr, x.X)
		if hi == "" {
			hi = sv.L[2]
		}
		vc.oblige(st, "slice", "", and(app("bvule", lo, hi), app("bvule", hi, sv.L[2])), x.Pos(), vc.safetyProps)
		nv := Val{T: x.Type(), L: []string{sv.L[0], app("bvadd", sv.L[1], lo), app("bvsub", hi, lo)}}
		if src, ok := vc.strSrc[sv.L[0]]; ok {
			_ = src
		}
		vc.setVal(fr, x, nv)
	case *types.Pointer:
		at := bt.Elem().Underlying().(*types.Array)
		d := vc.desc(fr, x.X)
		if d.Root == rObj && !d.InElem && d.Path == "" {
			vc.nilCheck(st, d.Ref, x.Pos())
		}
		if d.Root == rGlobal {
			vc.unsupported("slice of global array %s", d.Glob)
		}
		if d.InElem {
			vc.unsupported("slice of array inside array element")
		}
		n := bvLit(64, uint64(at.Len()))
		if hi == "" {
			hi = n
		}
		vc.oblige(st, "slice", "", and(app("bvule", lo, hi), app("bvule", hi, n)), x.Pos(), vc.safetyProps)
		k := 0
		if d.Path != "" {
			k = arrFieldIndex(structKey(d.RootT), d.Path)
		}
		vc.setVal(fr, x, Val{T: x.Type(), L: []string{aidOf(d.Ref, k), lo, app("bvsub", hi, lo), app("bvsub", n, lo)}})
	default:
		vc.unsupported("Slice of %s", x.X.Type())
	}
}

// ---------------------------------------------------------------------------
// interfaces

func (vc *VC) makeInterface(st *State, v Val, src ssa.Value, it types.Type) Val {
	tag := bvLit(64, uint64(vc.w.tags.tag(v.T)))
	switch v.T.Underlying().(type) {
	case *types.Pointer:
		return Val{T: it, L: []string{tag, v.L[0]}}
	}
	// value read directly from an immutable package-level variable: canonical box
	if src != nil {
		if u, ok := src.(*ssa.UnOp); ok && u.Op == token.MUL {
			if g, ok := u.X.(*ssa.Global); ok && vc.w.immutableGlobal(g) {
				return Val{T: it, L: []string{tag, bvLit(64, uint64(vc.w.globalBoxId(g)))}}
			}
		}
	}
	if len(v.L) == 0 {
		return Val{T: it, L: []string{tag, bvLit(64, 0)}}
	}
	// box the value
	ref := vc.allocRef(st)
	d := &PtrDesc{Root: rObj, Ref: ref, RootT: boxType(v.T), T: v.T}
	vc.storeDesc(st, d, v)
	iv := Val{T: it, L: []string{tag, ref}}
	vc.errBoxAxioms(st, iv, v)
	return iv
}

// boxType: boxed values of type T live in their own heap family.
type boxedT struct{ types.Type }

func boxType(t types.Type) types.Type { return t }

func (vc *VC) unbox(st *State, iv Val, t types.Type) Val {
	if _, ok := t.Underlying().(*types.Pointer); ok {
		return Val{T: t, L: []string{iv.L[1]}}
	}
	if len(layoutOf(t).Leaves) == 0 {
		return Val{T: t}
	}
	d := &PtrDesc{Root: rObj, Ref: iv.L[1], RootT: boxType(t), T: t}
	return vc.loadDesc(st, d)
}

func (vc *VC) execTypeAssert(fr *Frame, x *ssa.TypeAssert, st *State) {
	iv := vc.value(fr, x.X)
	if _, isIface := x.AssertedType.Underlying().(*types.Interface); isIface {
		// interface to interface: ok iff dynamic type implements it; model ok as
		// uninterpreted unless the static type already guarantees it
		okc := vc.freshConst("ifok", sBool)
		if !x.CommaOk {
			vc.oblige(st, "typeassert", "", okc, x.Pos(), vc.safetyProps)
			vc.setVal(fr, x, Val{T: x.Type(), L: iv.L})
			return
		}
		vc.setVal(fr, x, Val{T: x.Type(), L: []string{ite(okc, iv.L[0], bvLit(64, 0)), ite(okc, iv.L[1], bvLit(64, 0)), okc}})
		return
	}
	tag := bvLit(64, uint64(vc.w.tags.tag(x.AssertedType)))
	ok := vc.define("tok", sBool, eq(iv.L[0], tag))
	val := vc.unbox(st, iv, x.AssertedType)
	if !x.CommaOk {
		vc.oblige(st, "typeassert", "", ok, x.Pos(), vc.safetyProps)
		vc.setVal(fr, x, val)
		return
	}
	zero := vc.zeroVal(x.AssertedType)
	out := Val{T: x.Type()}
	for k := range val.L {
		out.L = append(out.L, ite(ok, val.L[k], zero.L[k]))
	}
	out.L = append(out.L, ok)
	vc.setVal(fr, x, out)
}

func (vc *VC) ifaceEq(a, b Val) string {
	// comparison with nil or identical dynamic type and payload identity; values of a
	// zero-size dynamic type (encoding/binary's byte orders) are equal whenever the types are
	for _, x := range []Val{a, b} {
		var id uint64
		var w int
		if _, err := fmt.Sscanf(x.L[0], "(_ bv%d %d)", &id, &w); err == nil {
			if t := vc.w.tags.byID[int(id)]; t != nil {
				if _, isPtr := t.Underlying().(*types.Pointer); !isPtr && len(layoutOf(t).Leaves) == 0 {
					return eq(a.L[0], b.L[0])
				}
			} else if int(id) == vc.w.tags.tagNamed("encoding/binary.littleEndian") || int(id) == vc.w.tags.tagNamed("encoding/binary.bigEndian") {
				return eq(a.L[0], b.L[0])
			}
		}
	}
	return and(eq(a.L[0], b.L[0]), eq(a.L[1], b.L[1]))
}

// ---------------------------------------------------------------------------
// strings

func (vc *VC) strConst(sid int) (string, bool) {
	return vc.w.strContent(sid)
}

// strByte returns byte i (64-bit index term, relative to the string start).
func (vc *VC) strByte(s Val, i64 string) string {
	if src, ok := vc.strSrc[s.L[0]]; ok {
		return sel(src.arr, app("bvadd", src.off, app("bvadd", s.L[1], i64)))
	}
	vc.declare("StrB", arrSort(sBV64, arrSort(sBV64, sBV8)))
	vc.needStrContent(s.L[0])
	return sel(sel("StrB", s.L[0]), app("bvadd", s.L[1], i64))
}

// needStrContent emits the content axiom of a constant string id.
func (vc *VC) needStrContent(sidTerm string) {
	var id uint64
	var w int
	if _, err := fmt.Sscanf(sidTerm, "(_ bv%d %d)", &id, &w); err != nil {
		return
	}
	if vc.strDone[int(id)] {
		return
	}
	vc.strDone[int(id)] = true
	content, ok := vc.w.strContent(int(id))
	if !ok {
		return
	}
	vc.declare("StrB", arrSort(sBV64, arrSort(sBV64, sBV8)))
	arr := constArr(arrSort(sBV64, sBV8), bvLit(8, 0))
	for i := 0; i < len(content); i++ {
		arr = sto(arr, bvLit(64, uint64(i)), bvLit(8, uint64(content[i])))
	}
	vc.prelude = append(vc.prelude, fmt.Sprintf("(assert (= (select StrB %s) %s))", sidTerm, arr))
}

func constStrOf(vc *VC, v Val) (string, bool) {
	var id uint64
	var w int
	if _, err := fmt.Sscanf(v.L[0], "(_ bv%d %d)", &id, &w); err != nil {
		return "", false
	}
	var off, ln uint64
	if _, err := fmt.Sscanf(v.L[1], "(_ bv%d %d)", &off, &w); err != nil {
		return "", false
	}
	if _, err := fmt.Sscanf(v.L[2], "(_ bv%d %d)", &ln, &w); err != nil {
		return "", false
	}
	c, ok := vc.w.strContent(int(id))
	if !ok || off+ln > uint64(len(c)) {
		return "", false
	}
	return c[off : off+ln], true
}

func (vc *VC) strEq(a, b Val) string {
	ca, oka := constStrOf(vc, a)
	cb, okb := constStrOf(vc, b)
	if oka && okb {
		if ca == cb {
			return "true"
		}
		return "false"
	}
	if okb && !oka {
		a, b = b, a
		ca, oka = cb, true
	}
	if oka && len(ca) <= 64 {
		cs := []string{eq(b.L[2], bvLit(64, uint64(len(ca))))}
		for i := 0; i < len(ca); i++ {
			cs = append(cs, eq(vc.strByte(b, bvLit(64, uint64(i))), bvLit(8, uint64(ca[i]))))
		}
		return and(cs...)
	}
	// symbolic: identical representation, or the uninterpreted content equality
	vc.declareFun("StrEqU", []string{sBV64, sBV64, sBV64, sBV64, sBV64, sBV64}, sBool)
	same := and(eq(a.L[0], b.L[0]), eq(a.L[1], b.L[1]), eq(a.L[2], b.L[2]))
	return or(same, and(eq(a.L[2], b.L[2]), app("StrEqU", a.L[0], a.L[1], a.L[2], b.L[0], b.L[1], b.L[2])))
}

func (vc *VC) strConcat(a, b Val) Val {
	vc.declareFun("StrCat", []string{sBV64, sBV64, sBV64, sBV64, sBV64, sBV64}, sBV64)
	sid := app("StrCat", a.L[0], a.L[1], a.L[2], b.L[0], b.L[1], b.L[2])
	return Val{T: a.T, L: []string{sid, bvLit(64, 0), app("bvadd", a.L[2], b.L[2])}}
}

func (vc *VC) bytesToString(st *State, v Val, to types.Type) Val {
	sid := vc.freshConst("str", sBV64)
	if st != nil {
		h := vc.heapTerm(st, elemHeapName(elemKey(types.Typ[types.Uint8]), ""), arrSort(sBV64, arrSort(sBV64, sBV8)))
		snap := vc.define("snap", arrSort(sBV64, sBV8), sel(h, v.L[0]))
		vc.strSrc[sid] = &strSource{arr: snap, off: v.L[1]}
		// the same fact for readers that reach the string through the heap or a ghost store
		vc.declare("StrB", arrSort(sBV64, arrSort(sBV64, sBV8)))
		q := vc.fresh("i")
		vc.assume("true", fmt.Sprintf("(forall ((%s %s)) (! (= (select (select StrB %s) %s) (select %s (bvadd %s %s))) :pattern ((select (select StrB %s) %s))))", q, sBV64, sid, q, snap, v.L[1], q, sid, q))
	}
	return Val{T: to, L: []string{sid, bvLit(64, 0), v.L[2]}}
}

func (vc *VC) stringToBytes(st *State, v Val, to types.Type) Val {
	ref := vc.allocRef(st)
	aid := vc.define("aid", sBV64, aidOf(ref, 0))
	vc.freshKeys[aid] = true
	hn := elemHeapName(elemKey(types.Typ[types.Uint8]), "")
	hs := arrSort(sBV64, arrSort(sBV64, sBV8))
	h := vc.heapTerm(st, hn, hs)
	content := vc.freshConst("sb", arrSort(sBV64, sBV8))
	vc.setHeap(st, hn, hs, sto(h, aid, content))
	if c, ok := constStrOf(vc, v); ok && len(c) <= 64 {
		for i := 0; i < len(c); i++ {
			vc.assume("true", eq(sel(content, bvLit(64, uint64(i))), bvLit(8, uint64(c[i]))))
		}
	}
	return Val{T: to, L: []string{aid, bvLit(64, 0), v.L[2], v.L[2]}}
}

// ---------------------------------------------------------------------------
// maps: contents heap M!<type> : ref -> (Array K (V..., present))

func mapKeySort(mt *types.Map) (string, func(Val) string) {
	lay := layoutOf(mt.Key())
	if len(lay.Leaves) == 1 {
		return lay.Leaves[0].Sort, func(k Val) string { return k.L[0] }
	}
	// struct of bit-vectors: concatenate
	total := 0
	for _, l := range lay.Leaves {
		if l.Width == 0 {
			panic(outsideSubset{"map key of unsupported type " + mt.Key().String()})
		}
		total += l.Width
	}
	return bvSort(total), func(k Val) string { return app("concat", k.L...) }
}

func (vc *VC) mapHeaps(st *State, mt *types.Map) (names []string, sorts []string) {
	ks, _ := mapKeySort(mt)
	key := shortTypeName(mt)
	for _, l := range layoutOf(mt.Elem()).Leaves {
		names = append(names, "M!"+key+"!"+l.Path)
		sorts = append(sorts, arrSort(sBV64, arrSort(ks, l.Sort)))
	}
	names = append(names, "M!"+key+"!#present")
	sorts = append(sorts, arrSort(sBV64, arrSort(ks, sBool)))
	names = append(names, "M!"+key+"!#len")
	sorts = append(sorts, arrSort(sBV64, sBV64))
	return
}

func (vc *VC) mapInit(st *State, ref string, mt *types.Map) {
	names, sorts := vc.mapHeaps(st, mt)
	n := len(names)
	for i := 0; i < n-1; i++ {
		h := vc.heapTerm(st, names[i], sorts[i])
		vc.setHeap(st, names[i], sorts[i], sto(h, ref, zeroOfSort(arrayElemSort(sorts[i]))))
	}
	h := vc.heapTerm(st, names[n-1], sorts[n-1])
	vc.setHeap(st, names[n-1], sorts[n-1], sto(h, ref, bvLit(64, 0)))
}

func (vc *VC) mapLookupOk(st *State, m, k Val, mt *types.Map) Val {
	if gl, ok := vc.globalMapTable(m); ok {
		return gl(k)
	}
	names, sorts := vc.mapHeaps(st, mt)
	_, kf := mapKeySort(mt)
	key := kf(k)
	out := Val{T: mt.Elem()}
	n := len(names)
	pres := sel(sel(vc.heapTerm(st, names[n-2], sorts[n-2]), m.L[0]), key)
	lay := layoutOf(mt.Elem())
	for i := 0; i < n-2; i++ {
		t := sel(sel(vc.heapTerm(st, names[i], sorts[i]), m.L[0]), key)
		out.L = append(out.L, ite(pres, t, zeroOfSort(lay.Leaves[i].Sort)))
	}
	out.L = append(out.L, pres)
	return out
}

func (vc *VC) mapLookup(st *State, m, k Val, mt *types.Map) Val {
	v := vc.mapLookupOk(st, m, k, mt)
	return Val{T: mt.Elem(), L: v.L[:len(v.L)-1]}
}

func (vc *VC) mapLen(st *State, m Val, mt *types.Map) string {
	names, sorts := vc.mapHeaps(st, mt)
	n := len(names)
	return sel(vc.heapTerm(st, names[n-1], sorts[n-1]), m.L[0])
}

func (vc *VC) mapUpdate(st *State, m, k, v Val, mt *types.Map) {
	names, sorts := vc.mapHeaps(st, mt)
	ksort, kf := mapKeySort(mt)
	key := vc.define("mk", ksort, kf(k))
	n := len(names)
	presH := vc.heapTerm(st, names[n-2], sorts[n-2])
	was := vc.define("was", sBool, sel(sel(presH, m.L[0]), key))
	for i := 0; i < n-2; i++ {
		h := vc.heapTerm(st, names[i], sorts[i])
		vc.setHeap(st, names[i], sorts[i], sto(h, m.L[0], sto(sel(h, m.L[0]), key, v.L[i])))
	}
	vc.setHeap(st, names[n-2], sorts[n-2], sto(presH, m.L[0], sto(sel(presH, m.L[0]), key, "true")))
	lh := vc.heapTerm(st, names[n-1], sorts[n-1])
	ol := sel(lh, m.L[0])
	vc.setHeap(st, names[n-1], sorts[n-1], sto(lh, m.L[0], ite(was, ol, app("bvadd", ol, bvLit(64, 1)))))
}

// Range over a map: the iterator is an object with a ghost position (Z!iterpos). The iteration visits
// len(m) entries (the map must not change while it is iterated: obligation maprange.unmodified at every next);
// each visited key is present and comes with its value. That the keys are pairwise different is not modelled
// (less is assumed, nothing unsound).
type mapIter struct {
	ref   string
	m     Val
	mt    *types.Map
	heaps map[string]string // map heap terms at the time of the range statement
}

func iterposHeap(vc *VC) (string, string) {
	hn := ghostHeapName("iterpos")
	hs := arrSort(sBV64, sBV64)
	vc.ghostSorts[hn] = hs
	return hn, hs
}

func (vc *VC) execRange(fr *Frame, x *ssa.Range, st *State) {
	mt, ok := x.X.Type().Underlying().(*types.Map)
	if !ok {
		vc.unsupported("range over string in %s (no iteration model yet)", fr.fn)
	}
	ref := vc.allocRef(st)
	m := vc.value(fr, x.X)
	hn, hs := iterposHeap(vc)
	vc.setHeap(st, hn, hs, sto(vc.heapTerm(st, hn, hs), ref, bvLit(64, 0)))
	it := &mapIter{ref: ref, m: m, mt: mt, heaps: map[string]string{}}
	names, sorts := vc.mapHeaps(st, mt)
	for i := range names {
		it.heaps[names[i]] = sel(vc.heapTerm(st, names[i], sorts[i]), m.L[0])
	}
	if vc.mapIters == nil {
		vc.mapIters = map[ssa.Value]*mapIter{}
	}
	vc.mapIters[x] = it
	vc.trusted["range over a map visits exactly len(m) entries, each a present key with its value, provided the map is not modified meanwhile (checked); the order and the pairwise distinctness of the keys are not modelled"] = true
	fr.vals[x] = Val{T: x.Type(), L: []string{ref}}
}

// iterPos: the number of entries the iterator of the map-range loop headed by li has delivered so far.
func (vc *VC) iterPos(st *State, li *loopInfo) (string, bool) {
	for _, instr := range li.header.Instrs {
		if nx, ok := instr.(*ssa.Next); ok {
			if it, ok := vc.mapIters[nx.Iter]; ok {
				hn, hs := iterposHeap(vc)
				return sel(vc.heapTerm(st, hn, hs), it.ref), true
			}
		}
	}
	return "", false
}

func (vc *VC) execNext(fr *Frame, x *ssa.Next, st *State) {
	it, ok := vc.mapIters[x.Iter]
	if !ok || x.IsString {
		vc.unsupported("next in %s", fr.fn)
	}
	names, sorts := vc.mapHeaps(st, it.mt)
	var same []string
	for i := range names {
		now := sel(vc.heapTerm(st, names[i], sorts[i]), it.m.L[0])
		if now != it.heaps[names[i]] {
			same = append(same, eq(now, it.heaps[names[i]]))
		}
	}
	if len(same) > 0 {
		vc.oblige(st, "maprange", "unmodified", and(same...), x.Pos(), vc.safetyProps)
	}
	hn, hs := iterposHeap(vc)
	h := vc.heapTerm(st, hn, hs)
	pos := vc.define("itp", sBV64, sel(h, it.ref))
	n := vc.define("itn", sBV64, vc.mapLen(st, it.m, it.mt))
	vc.assume(st.cond, and(app("bvsle", bvLit(64, 0), n), app("bvslt", n, bvLit(64, 1<<40)), app("bvsle", bvLit(64, 0), pos), app("bvsle", pos, n)))
	okv := vc.define("itok", sBool, app("bvslt", pos, n))
	key := freshVal(vc, st, it.mt.Key(), "itk")
	lk := vc.mapLookupOk(st, it.m, key, it.mt)
	vc.assume(st.cond, imp(okv, lk.L[len(lk.L)-1]))
	vc.setHeap(st, hn, hs, sto(h, it.ref, ite(okv, app("bvadd", pos, bvLit(64, 1)), pos)))
	vc.dirty[hn] = true
	out := Val{T: x.Type(), L: []string{okv}}
	out.L = append(out.L, key.L...)
	out.L = append(out.L, lk.L[:len(lk.L)-1]...)
	vc.setVal(fr, x, out)
}
