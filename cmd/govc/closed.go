package main

// Closed-formula obligations over the mechanically extracted profile tables,
// message struct types, constructors and file containers (property C15, and
// the table invariants other contracts rely on).  Every obligation is a
// ground formula (no free variables): it is evaluated by the generator itself
// and reported with back end "ground".

import (
	"fmt"
	"go/constant"
	"go/token"
	"go/types"
	"sort"
	"strings"

	"golang.org/x/tools/go/ssa"
)

type groundCheck struct {
	name string
	ok   bool
	why  string
	pos  string
}

func (w *World) groundObligation(prop string, gc groundCheck) *Obligation {
	o := &Obligation{Name: gc.name, Kind: "table", Fn: "profile tables", Props: []string{prop}, Expect: "unsat", Cond: "true", Goal: "true", Pos: gc.pos}
	o.Solver = "ground"
	if gc.ok {
		o.Status = "unsat"
	} else {
		o.Status = "sat"
		o.Model = "closed formula evaluates to false: " + gc.why
		o.Output = o.Model
	}
	return o
}

var baseNames = map[int]string{0x00: "enum", 0x01: "sint8", 0x02: "uint8", 0x83: "sint16", 0x84: "uint16", 0x85: "sint32", 0x86: "uint32", 0x07: "string",
	0x88: "float32", 0x89: "float64", 0x0A: "uint8z", 0x8B: "uint16z", 0x8C: "uint32z", 0x0D: "byte", 0x8E: "sint64", 0x8F: "uint64", 0x90: "uint64z"}

// expected (class, width) of the Go field for a FIT base type
func baseClass(base int) (int, int, bool) {
	switch base {
	case 0x00, 0x02, 0x0A, 0x0D:
		return clsUint, 8, true
	case 0x01:
		return clsInt, 8, true
	case 0x83:
		return clsInt, 16, true
	case 0x84, 0x8B:
		return clsUint, 16, true
	case 0x85:
		return clsInt, 32, true
	case 0x86, 0x8C:
		return clsUint, 32, true
	case 0x07:
		return clsString, 0, true
	case 0x88:
		return clsFloat, 32, true
	case 0x89:
		return clsFloat, 64, true
	case 0x8E:
		return clsInt, 64, true
	case 0x8F, 0x90:
		return clsUint, 64, true
	}
	return 0, 0, false
}

func baseSize(base int) int {
	_, w, ok := baseClass(base)
	if !ok {
		return 0
	}
	if base == 0x07 {
		return 1
	}
	return w / 8
}

// invalid value (as unsigned bit pattern of the base width) of a FIT base type
func baseInvalid(base int) (uint64, bool) {
	switch base {
	case 0x00, 0x02, 0x0D:
		return 0xFF, true
	case 0x01:
		return 0x7F, true
	case 0x83:
		return 0x7FFF, true
	case 0x84:
		return 0xFFFF, true
	case 0x85:
		return 0x7FFFFFFF, true
	case 0x86:
		return 0xFFFFFFFF, true
	case 0x0A, 0x8B, 0x8C, 0x90:
		return 0, true
	case 0x8E:
		return 0x7FFFFFFFFFFFFFFF, true
	case 0x8F:
		return 0xFFFFFFFFFFFFFFFF, true
	}
	return 0, false
}

// tableChecks generates the C15 obligations.
func (w *World) tableChecks() []groundCheck {
	p := w.profile()
	var out []groundCheck
	add := func(name string, ok bool, pos token.Pos, format string, a ...interface{}) {
		gc := groundCheck{name: name, ok: ok}
		if !ok {
			gc.why = fmt.Sprintf(format, a...)
		}
		if pos.IsValid() {
			gc.pos = w.Fset.Position(pos).String()
		}
		out = append(out, gc)
	}
	add("tables#extraction", len(p.Err) == 0, token.NoPos, "table extraction: %s", strings.Join(p.Err, "; "))
	// per entry
	for _, r := range p.Rows {
		name := fmt.Sprintf("table.%s.%d", msgLabel(p, r.Msg), r.Num)
		mi := p.Msgs[r.Msg]
		if mi == nil {
			add(name+"#known", false, r.Pos, "message %d has table rows but no struct type in msgsTypes", r.Msg)
			continue
		}
		add(name+"#known", p.Known[r.Msg], r.Pos, "row of message %d which is not in knownMsgNums", r.Msg)
		okIdx := r.Sindex >= 0 && r.Sindex < len(mi.Fields)
		add(name+"#sindex", okIdx, r.Pos, "struct index %d outside 0..%d of %s", r.Sindex, len(mi.Fields)-1, mi.Name)
		base := r.Base()
		_, _, baseOK := baseClass(base)
		add(name+"#fit-valid", r.Kind() <= 4 && (r.Fit&0x1F) <= 16 && baseOK && r.Fit>>9 == 0, r.Pos, "types.Fit(%d) is not a valid type word", r.Fit)
		if !okIdx || !baseOK {
			continue
		}
		f := mi.Fields[r.Sindex]
		add(name+"#exported", f.Exported, r.Pos, "field %s.%s is not exported (reflect cannot set it)", mi.Name, f.Name)
		// Go type agrees with base type, array flag and kind
		var typeOK bool
		var want string
		bc, bw, _ := baseClass(base)
		switch r.Kind() {
		case 0: // native
			if !r.Array() {
				typeOK = f.Class == bc && (bc == clsString || f.Width == bw)
				want = fmt.Sprintf("scalar %s", baseNames[base])
			} else {
				if base == 0x07 {
					typeOK = f.Class == clsSlice && f.EClass == clsString
				} else {
					typeOK = f.Class == clsSlice && f.EClass == bc && f.EWidth == bw
				}
				want = fmt.Sprintf("array of %s", baseNames[base])
			}
		case 1, 2:
			typeOK = f.Class == clsTime && !r.Array() && base == 0x86
			want = "time.Time (uint32 seconds)"
		case 3:
			typeOK = f.Class == clsLat && !r.Array() && base == 0x85
			want = "Latitude (sint32 semicircles)"
		case 4:
			typeOK = f.Class == clsLng && !r.Array() && base == 0x85
			want = "Longitude (sint32 semicircles)"
		}
		add(name+"#gotype", typeOK, r.Pos, "field %s.%s has Go type %s, the table entry types.Fit(%d) prescribes %s", mi.Name, f.Name, f.T, r.Fit, want)
		// sizes fit in one byte on the wire
		sz := baseSize(base) * r.Length
		if base == 0x07 {
			sz = r.Length
		}
		add(name+"#size", r.Length >= 1 && sz <= 255 && (r.Array() || base == 0x07 || r.Length == 1), r.Pos, "length %d gives an encoded size of %d bytes (or a scalar with length != 1)", r.Length, sz)
	}
	// per message
	var ms []int
	for m := range p.RowsByMsg {
		ms = append(ms, m)
	}
	sort.Ints(ms)
	for _, m := range ms {
		rows := p.RowsByMsg[m]
		mi := p.Msgs[m]
		if mi == nil {
			continue
		}
		seen := map[int]int{}
		dup := ""
		for _, r := range rows {
			if prev, ok := seen[r.Sindex]; ok {
				dup = fmt.Sprintf("fields %d and %d share struct index %d", prev, r.Num, r.Sindex)
			}
			seen[r.Sindex] = r.Num
		}
		cover := len(seen) == len(mi.Fields)
		add(fmt.Sprintf("table.%s#sindex-bijective", msgLabel(p, m)), dup == "" && cover, rows[0].Pos, "%s; %d distinct indices for %d struct fields", dup, len(seen), len(mi.Fields))
		// generator invariant: rows are listed in struct order (struct index = position among the enabled rows)
		ord := true
		bad := ""
		for i, r := range rows {
			if r.Sindex != i {
				ord = false
				bad = fmt.Sprintf("row %d (field %d) has struct index %d", i, r.Num, r.Sindex)
				break
			}
		}
		add(fmt.Sprintf("table.%s#order", msgLabel(p, m)), ord, rows[0].Pos, "rows are not in struct order: %s", bad)
	}
	// known messages
	for _, m := range p.KnownList {
		name := fmt.Sprintf("known.%d", m)
		mi := p.Msgs[m]
		add(name+"#bounds", m < p.FieldsLen && m < p.MsgTypesLen && m < p.NewFuncsLen && m < 0xFF00, token.NoPos, "known message %d outside the tables (len _fields %d, msgsTypes %d, newMesgFuncs %d)", m, p.FieldsLen, p.MsgTypesLen, p.NewFuncsLen)
		add(name+"#type", mi != nil, token.NoPos, "known message %d has no entry in msgsTypes", m)
		if mi != nil {
			ctor := p.NewFuncs[m]
			add(name+"#constructor", ctor == "New"+mi.Name, token.NoPos, "newMesgFuncs[%d] calls %q, message type is %s", m, ctor, mi.Name)
		}
	}
	for m := range p.RowsByMsg {
		if !p.Known[m] && len(p.RowsByMsg[m]) > 0 {
			add(fmt.Sprintf("unknown.%d#no-rows", m), false, p.RowsByMsg[m][0].Pos, "message %d is not known but has %d table rows", m, len(p.RowsByMsg[m]))
		}
	}
	add("unknown#no-rows", true, token.NoPos, "")
	// msgsTypes injective
	byName := map[string]int{}
	inj := true
	why := ""
	for m, mi := range p.Msgs {
		if prev, ok := byName[mi.Name]; ok {
			inj = false
			why = fmt.Sprintf("messages %d and %d share type %s", prev, m, mi.Name)
		}
		byName[mi.Name] = m
	}
	add("msgsTypes#injective", inj, token.NoPos, "%s", why)
	// constructors
	for _, m := range p.KnownList {
		mi := p.Msgs[m]
		if mi == nil {
			continue
		}
		out = append(out, w.ctorChecks(p, mi)...)
	}
	// containers
	out = append(out, w.containerChecks(p)...)
	return out
}

// ctorChecks: NewXMsg initialises every field to the invalid value of the
// table's base type.
func (w *World) ctorChecks(p *Profile, mi *MsgInfo) []groundCheck {
	var out []groundCheck
	name := "ctor." + strings.TrimSuffix(mi.Name, "Msg")
	fn := w.constructorOf("New" + mi.Name)
	if fn == nil {
		return []groundCheck{{name: name + "#exists", ok: false, why: "constructor New" + mi.Name + " not found"}}
	}
	pos := w.Fset.Position(fn.Pos()).String()
	// collect stores into the allocated struct
	stores := map[int]ssa.Value{}
	var alloc *ssa.Alloc
	shape := true
	for _, b := range fn.Blocks {
		for _, instr := range b.Instrs {
			switch x := instr.(type) {
			case *ssa.Alloc:
				if alloc == nil {
					alloc = x
				}
			case *ssa.Store:
				fa, ok := x.Addr.(*ssa.FieldAddr)
				if !ok || fa.X != ssa.Value(alloc) {
					shape = false
					continue
				}
				stores[fa.Field] = x.Val
			case *ssa.If:
				shape = false
			}
		}
	}
	if alloc == nil || !shape || len(fn.Blocks) != 1 {
		return []groundCheck{{name: name + "#shape", ok: false, why: "constructor is not a single allocation with constant field stores", pos: pos}}
	}
	bySindex := map[int]FieldRow{}
	for _, r := range p.RowsByMsg[mi.Num] {
		bySindex[r.Sindex] = r
	}
	for i, f := range mi.Fields {
		r, ok := bySindex[i]
		cn := fmt.Sprintf("%s.%s#invalid", name, f.Name)
		if !ok {
			out = append(out, groundCheck{name: cn, ok: false, why: "struct field has no table row", pos: pos})
			continue
		}
		v := stores[i]
		okv := false
		why := ""
		switch {
		case r.Array():
			okv = v == nil || isNilConst(v)
			why = "array field must start nil"
		case r.Kind() == 1 || r.Kind() == 2:
			okv = isLoadOfGlobal(v, "timeBase")
			why = "time field must start as timeBase"
		case r.Kind() == 3:
			okv = isCallTo(v, "NewLatitudeInvalid")
			why = "latitude field must start as NewLatitudeInvalid()"
		case r.Kind() == 4:
			okv = isCallTo(v, "NewLongitudeInvalid")
			why = "longitude field must start as NewLongitudeInvalid()"
		case r.Base() == 0x07:
			okv = v == nil || isConstString(v, "")
			why = "string field must start empty"
		case r.Base() == 0x88 || r.Base() == 0x89:
			okv = isFloatInvalid(v)
			why = "float field must start as the all-ones bit pattern"
		default:
			inv, ok := baseInvalid(r.Base())
			got, isConst := constUint(v, f.Width)
			if v == nil {
				got, isConst = 0, true
			}
			okv = ok && isConst && got == inv
			why = fmt.Sprintf("field starts as %#x, the invalid value of %s is %#x", got, baseNames[r.Base()], inv)
		}
		gc := groundCheck{name: cn, ok: okv, pos: pos}
		if !okv {
			gc.why = fmt.Sprintf("New%s: %s.%s: %s", mi.Name, mi.Name, f.Name, why)
		}
		out = append(out, gc)
	}
	return out
}

func isNilConst(v ssa.Value) bool {
	c, ok := v.(*ssa.Const)
	return ok && c.Value == nil
}

func isConstString(v ssa.Value, s string) bool {
	c, ok := v.(*ssa.Const)
	return ok && c.Value != nil && c.Value.Kind() == constant.String && constant.StringVal(c.Value) == s
}

func constUint(v ssa.Value, width int) (uint64, bool) {
	c, ok := v.(*ssa.Const)
	if !ok || c.Value == nil {
		return 0, false
	}
	if c.Value.Kind() != constant.Int {
		return 0, false
	}
	if u, ok := constant.Uint64Val(c.Value); ok {
		return u, true
	}
	if i, ok := constant.Int64Val(c.Value); ok {
		if width > 0 && width < 64 {
			return uint64(i) & ((1 << uint(width)) - 1), true
		}
		return uint64(i), true
	}
	return 0, false
}

func isLoadOfGlobal(v ssa.Value, name string) bool {
	u, ok := v.(*ssa.UnOp)
	if !ok || u.Op != token.MUL {
		return false
	}
	g, ok := u.X.(*ssa.Global)
	return ok && g.Name() == name
}

func isCallTo(v ssa.Value, name string) bool {
	c, ok := v.(*ssa.Call)
	if !ok {
		return false
	}
	f, ok := c.Call.Value.(*ssa.Function)
	return ok && f.Name() == name
}

func isFloatInvalid(v ssa.Value) bool {
	// math.Float32frombits(0xFFFFFFFF) / Float64frombits(all ones), or a constant NaN is not expressible
	c, ok := v.(*ssa.Call)
	if !ok {
		return false
	}
	f, ok := c.Call.Value.(*ssa.Function)
	if !ok || !(f.Name() == "Float32frombits" || f.Name() == "Float64frombits") || len(c.Call.Args) != 1 {
		return false
	}
	u, ok := constUint(c.Call.Args[0], 64)
	if f.Name() == "Float32frombits" {
		return ok && u == 0xFFFFFFFF
	}
	return ok && u == 0xFFFFFFFFFFFFFFFF
}

// containerChecks: every message type held by a file container is known.
func (w *World) containerChecks(p *Profile) []groundCheck {
	var out []groundCheck
	pkg := w.PkgByPath[modPath]
	byName := map[string]int{}
	for m, mi := range p.Msgs {
		byName[mi.Name] = m
	}
	scope := pkg.Types.Scope()
	for _, n := range scope.Names() {
		tn, ok := scope.Lookup(n).(*types.TypeName)
		if !ok || !strings.HasSuffix(n, "File") || n == "File" {
			continue
		}
		st, ok := tn.Type().Underlying().(*types.Struct)
		if !ok {
			continue
		}
		for i := 0; i < st.NumFields(); i++ {
			f := st.Field(i)
			var elem types.Type
			switch t := f.Type().(type) {
			case *types.Pointer:
				elem = t.Elem()
			case *types.Slice:
				if pt, ok := t.Elem().(*types.Pointer); ok {
					elem = pt.Elem()
				}
			}
			named, ok := elem.(*types.Named)
			cn := fmt.Sprintf("container.%s.%s#known", n, f.Name())
			if !ok {
				out = append(out, groundCheck{name: cn, ok: false, why: "member is not a message pointer or slice of message pointers"})
				continue
			}
			m, ok := byName[named.Obj().Name()]
			out = append(out, groundCheck{name: cn, ok: ok && p.Known[m], why: fmt.Sprintf("container member type %s is not a known message type", named.Obj().Name())})
		}
	}
	return out
}
