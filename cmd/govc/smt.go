package main

import (
	"fmt"
	"go/constant"
	"go/types"
	"math"
	"math/big"
	"strings"
)

func bvLit(width int, v uint64) string {
	if width < 64 {
		v &= (1 << uint(width)) - 1
	}
	return fmt.Sprintf("(_ bv%d %d)", v, width)
}

func bvLitBig(width int, v *big.Int) string {
	m := new(big.Int).Lsh(big.NewInt(1), uint(width))
	x := new(big.Int).Mod(v, m)
	return fmt.Sprintf("(_ bv%s %d)", x.String(), width)
}

func app(op string, args ...string) string {
	return "(" + op + " " + strings.Join(args, " ") + ")"
}

func and(args ...string) string {
	var a []string
	for _, x := range args {
		if x == "true" {
			continue
		}
		if x == "false" {
			return "false"
		}
		a = append(a, x)
	}
	switch len(a) {
	case 0:
		return "true"
	case 1:
		return a[0]
	}
	return app("and", a...)
}

func or(args ...string) string {
	var a []string
	for _, x := range args {
		if x == "false" {
			continue
		}
		if x == "true" {
			return "true"
		}
		a = append(a, x)
	}
	switch len(a) {
	case 0:
		return "false"
	case 1:
		return a[0]
	}
	return app("or", a...)
}

func not(x string) string {
	if x == "true" {
		return "false"
	}
	if x == "false" {
		return "true"
	}
	return app("not", x)
}

func imp(a, b string) string {
	if a == "true" {
		return b
	}
	if a == "false" || b == "true" {
		return "true"
	}
	return app("=>", a, b)
}

func ite(c, a, b string) string {
	if c == "true" {
		return a
	}
	if c == "false" {
		return b
	}
	if a == b {
		return a
	}
	return app("ite", c, a, b)
}

func isBVLit(a string) bool { return strings.HasPrefix(a, "(_ bv") }

func eq(a, b string) string {
	if a == b {
		return "true"
	}
	if isBVLit(a) && isBVLit(b) {
		return "false"
	}
	return app("=", a, b)
}

func sel(a, i string) string         { return app("select", a, i) }
func sto(a, i, v string) string      { return app("store", a, i, v) }
func constArr(sort, v string) string { return fmt.Sprintf("((as const %s) %s)", sort, v) }

func smtName(s string) string {
	for _, c := range s {
		if !(c >= 'a' && c <= 'z' || c >= 'A' && c <= 'Z' || c >= '0' && c <= '9' || c == '_' || c == '!' || c == '.' || c == '$') {
			return "|" + strings.ReplaceAll(strings.ReplaceAll(s, "|", "/"), "\\", "/") + "|"
		}
	}
	return s
}

// zeroOfSort returns the zero value term of a leaf sort.
func zeroOfSort(sort string) string {
	switch {
	case sort == sBool:
		return "false"
	case strings.HasPrefix(sort, "(_ BitVec "):
		var n int
		fmt.Sscanf(sort, "(_ BitVec %d)", &n)
		return bvLit(n, 0)
	case sort == sF32:
		return "(_ +zero 8 24)"
	case sort == sF64:
		return "(_ +zero 11 53)"
	case strings.HasPrefix(sort, "(Array "):
		// (Array idx el)
		el := arrayElemSort(sort)
		return constArr(sort, zeroOfSort(el))
	}
	panic("zeroOfSort " + sort)
}

func arrayElemSort(sort string) string {
	// sort = (Array I E); I is always a BitVec sort here
	s := strings.TrimPrefix(sort, "(Array ")
	// skip index sort
	depth := 0
	i := 0
	for ; i < len(s); i++ {
		if s[i] == '(' {
			depth++
		} else if s[i] == ')' {
			depth--
			if depth == 0 {
				i++
				break
			}
		} else if s[i] == ' ' && depth == 0 {
			break
		}
	}
	rest := strings.TrimSpace(s[i:])
	return strings.TrimSuffix(rest, ")")
}

// constLeafTerm renders a Go constant as the term(s) for type t.
func (vc *VC) constVal(t types.Type, c constant.Value) Val {
	lay := layoutOf(t)
	if c == nil {
		return vc.zeroVal(t)
	}
	switch {
	case isBool(t):
		if constant.BoolVal(c) {
			return Val{T: t, L: []string{"true"}}
		}
		return Val{T: t, L: []string{"false"}}
	case isInteger(t):
		w := widthOf(t)
		bi, ok := constant.Val(constant.ToInt(c)).(*big.Int)
		if !ok {
			i64, _ := constant.Int64Val(constant.ToInt(c))
			bi = big.NewInt(i64)
		}
		return Val{T: t, L: []string{bvLitBig(w, bi)}}
	case isFloat(t):
		f, _ := constant.Float64Val(c)
		if lay.Leaves[0].Sort == sF32 {
			bits := math.Float32bits(float32(f))
			return Val{T: t, L: []string{fmt.Sprintf("((_ to_fp 8 24) %s)", bvLit(32, uint64(bits)))}}
		}
		bits := math.Float64bits(f)
		return Val{T: t, L: []string{fmt.Sprintf("((_ to_fp 11 53) %s)", bvLit(64, bits))}}
	case isString(t):
		s := constant.StringVal(c)
		sid := vc.w.strId(s)
		return Val{T: t, L: []string{bvLit(64, uint64(sid)), bvLit(64, 0), bvLit(64, uint64(len(s)))}}
	}
	panic("constVal: unsupported constant of type " + t.String())
}

func (vc *VC) zeroVal(t types.Type) Val {
	lay := layoutOf(t)
	v := Val{T: t}
	for _, l := range lay.Leaves {
		switch {
		case l.GoT != nil && isOpaqueLeaf(l) && strings.HasSuffix(l.Path, "#rv.mt"):
			v.L = append(v.L, bvLit(64, 0xFFFF)) // invalid reflect.Value
		case l.GoT != nil && isOpaqueLeaf(l) && (strings.HasSuffix(l.Path, "#rv.fld") || strings.HasSuffix(l.Path, "#rv.idx")):
			v.L = append(v.L, bvLit(64, math.MaxUint64))
		default:
			v.L = append(v.L, zeroOfSort(l.Sort))
		}
	}
	return v
}

func isOpaqueLeaf(l Leaf) bool { return l.Kind == lkOpaque }

// ---------------------------------------------------------------------------
// integer helpers

func bvExtend(term string, from, to int, signed bool) string {
	if from == to {
		return term
	}
	if from > to {
		return fmt.Sprintf("((_ extract %d 0) %s)", to-1, term)
	}
	if signed {
		return fmt.Sprintf("((_ sign_extend %d) %s)", to-from, term)
	}
	return fmt.Sprintf("((_ zero_extend %d) %s)", to-from, term)
}
