package main

// Schema contract for the generated container routers (property C03):
// for every file container type T (a struct whose pointer implements msgAdder)
// and every message type M of the profile, (*T).add(msg) with a message of
// dynamic type M
//   - appends one fresh copy of the message to the field of type []*M, keeping
//     the earlier elements in place (stream order), or
//   - stores a fresh copy in the field of type *M (last one wins), or
//   - changes nothing when T has no field for M,
// and never changes any other field of T.  The expected routing is read off
// the struct type of T (go/types); the method body is the real SSA.  The copy
// equals the message except for the destinations of component expansion
// (the assigns clause of M's expandComponents contract).

import (
	"fmt"
	"go/types"
	"sort"
	"strings"

	"golang.org/x/tools/go/ssa"
)

type routerField struct {
	name  string
	index int
	slice bool
	msg   *types.Named
}

type routerType struct {
	named  *types.Named
	fn     *ssa.Function
	fields []routerField // message-holding fields
	other  []string      // other field names (must stay unchanged too)
}

func (w *World) routerTypes() []*routerType {
	pkg := w.PkgByPath[modPath]
	scope := pkg.Types.Scope()
	var adder *types.Interface
	if o := scope.Lookup("msgAdder"); o != nil {
		adder, _ = o.Type().Underlying().(*types.Interface)
	}
	if adder == nil {
		return nil
	}
	var out []*routerType
	for _, n := range scope.Names() {
		tn, ok := scope.Lookup(n).(*types.TypeName)
		if !ok || n == "File" {
			continue
		}
		named, ok := tn.Type().(*types.Named)
		if !ok {
			continue
		}
		st, ok := named.Underlying().(*types.Struct)
		if !ok || !types.Implements(types.NewPointer(named), adder) {
			continue
		}
		sel := w.Prog.MethodSets.MethodSet(types.NewPointer(named)).Lookup(pkg.Types, "add")
		if sel == nil {
			continue
		}
		rt := &routerType{named: named, fn: w.Prog.MethodValue(sel)}
		for i := 0; i < st.NumFields(); i++ {
			f := st.Field(i)
			var elem types.Type
			slice := false
			switch u := f.Type().(type) {
			case *types.Slice:
				elem, slice = u.Elem(), true
			case *types.Pointer:
				elem = u
			}
			if p, ok := elem.(*types.Pointer); ok {
				if mn, ok := p.Elem().(*types.Named); ok {
					if _, isStruct := mn.Underlying().(*types.Struct); isStruct {
						rt.fields = append(rt.fields, routerField{name: f.Name(), index: i, slice: slice, msg: mn})
						continue
					}
				}
			}
			rt.other = append(rt.other, f.Name())
		}
		out = append(out, rt)
	}
	sort.Slice(out, func(i, j int) bool { return out[i].named.Obj().Name() < out[j].named.Obj().Name() })
	return out
}

// expandAssigned: names of the fields of message type m that its
// expandComponents contract lists as assigned (none if m has no such method).
func (w *World) expandAssigned(m *types.Named) (map[string]bool, bool) {
	for _, c := range w.ContractList {
		if c.Fn == nil || c.Raw.Name != "expandComponents" || c.Fn.Signature.Recv() == nil {
			continue
		}
		p, ok := c.Fn.Signature.Recv().Type().(*types.Pointer)
		if !ok || !types.Identical(p.Elem(), m) {
			continue
		}
		out := map[string]bool{}
		for _, cl := range c.Raw.Clauses {
			if cl.Kind != "assigns" {
				continue
			}
			recvName := ""
			if fs := strings.Fields(c.Raw.Params); len(fs) > 0 {
				recvName = fs[0]
			}
			for _, loc := range splitTop(cl.Text, ",") {
				loc = strings.TrimSpace(loc)
				if strings.HasPrefix(loc, recvName+".") {
					out[strings.TrimPrefix(loc, recvName+".")] = true
				}
			}
		}
		return out, true
	}
	return nil, false
}

func (w *World) routerVC(rt *routerType, prop string) (res *FuncResult) {
	fn := rt.fn
	vc := newVC(w, fn, nil)
	vc.curProps = []string{prop}
	vc.safetyProps = []string{prop}
	res = &FuncResult{Fn: fn.String()}
	defer func() {
		if r := recover(); r != nil {
			switch e := r.(type) {
			case outsideSubset:
				res.Outside = e.msg
			case specErr:
				res.Outside = "spec: " + e.msg
			default:
				panic(r)
			}
		}
		vc.finishPrelude()
		res.Obls = vc.obls
		res.Prelude = vc.prelude
		res.Statics = vc.statics
		res.Script = vc.script
		for t := range vc.trusted {
			res.Trusted = append(res.Trusted, t)
		}
	}()
	fr := vc.newFrame(fn, true)
	st := &State{heap: newHeap(), cond: "true"}
	vc.declare("alloc0", sBV64)
	st.alloc = "alloc0"
	vc.assume("true", and(app("bvugt", "alloc0", bvLit(64, 1<<20)), app("bvult", "alloc0", bvLit(64, 1<<45))))
	// receiver: an existing container object
	recv := Val{T: fn.Params[0].Type(), L: []string{smtName("p!recv!0")}}
	vc.declare(recv.L[0], sBV64)
	vc.assume("true", and(not(eq(recv.L[0], bvLit(64, 0))), app("bvult", recv.L[0], "alloc0")))
	// message: a valid Value viewing a whole message struct of message number mt
	vc.declareRVFuncs()
	msg := Val{T: fn.Params[1].Type()}
	for k := range layoutOf(msg.T).Leaves {
		n := smtName(fmt.Sprintf("p!msg!%d", k))
		vc.declare(n, sBV64)
		msg.L = append(msg.L, n)
	}
	// a whole message: no field, no element index, class struct (as literals, so that every query sees them)
	msg.L[iFld], msg.L[iIdx], msg.L[iCls] = allOnes64, allOnes64, bvLit(64, clsStruct)
	vc.assume("true", and(not(eq(msg.L[iObj], bvLit(64, 0))), app("bvult", msg.L[iObj], "alloc0"), app("bvult", msg.L[iMt], bvLit(64, 0xFF00))))
	vc.assumeWellFormed(st, msg)
	vc.entry = st.clone()
	fr.vals[fn.Params[0]] = recv
	fr.vals[fn.Params[1]] = msg
	_, out := vc.execBody(fr, st)
	if out == nil {
		vc.unsupported("router never returns")
	}
	prof := w.profile()
	var nums []int
	for k := range prof.Msgs {
		nums = append(nums, k)
	}
	sort.Ints(nums)
	// the message-type tags of the profile (ground facts about reflect's view of msgsTypes)
	for _, k := range nums {
		vc.script = append(vc.script, fmt.Sprintf("(assert (= (RVTag %s) %s))", bvLit(64, uint64(k)), bvLit(64, uint64(w.tags.tag(prof.Msgs[k].Named)))))
	}
	tstruct := rt.named
	fieldVal := func(s *State, name string) Val {
		var ft types.Type
		stt := tstruct.Underlying().(*types.Struct)
		for i := 0; i < stt.NumFields(); i++ {
			if stt.Field(i).Name() == name {
				ft = stt.Field(i).Type()
			}
		}
		return vc.loadDesc(s, &PtrDesc{Root: rObj, Ref: recv.L[0], RootT: tstruct, Path: name, T: ft})
	}
	sameVal := func(a, b Val) string {
		var cs []string
		for k := range a.L {
			cs = append(cs, eq(a.L[k], b.L[k]))
		}
		return and(cs...)
	}
	elemAt := func(s *State, sl Val, k string) string {
		slt := sl.T.Underlying().(*types.Slice)
		d := &PtrDesc{InElem: true, Aid: sl.L[0], Idx: app("bvadd", sl.L[1], k), ElemT: slt.Elem(), T: slt.Elem()}
		return vc.loadDesc(s, d).L[0]
	}
	// contents of every slice field that existed before stay in place
	keepElems := func(name string) string {
		o := fieldVal(vc.entry, name)
		if _, ok := o.T.Underlying().(*types.Slice); !ok {
			return "true"
		}
		q := vc.fresh("q_k")
		return fmt.Sprintf("(forall ((%s %s)) (=> (and (bvsle (_ bv0 64) %s) (bvslt %s %s)) (= %s %s)))", q, sBV64, q, q, o.L[2], elemAt(out, o, q), elemAt(vc.entry, o, q))
	}
	copyOf := func(p string, m *types.Named) string {
		skip, _ := w.expandAssigned(m)
		cs := []string{not(eq(p, bvLit(64, 0))), app("bvuge", p, "alloc0")}
		mstruct := m.Underlying().(*types.Struct)
		for i := 0; i < mstruct.NumFields(); i++ {
			f := mstruct.Field(i)
			if skip[f.Name()] {
				continue
			}
			nv := vc.loadDesc(out, &PtrDesc{Root: rObj, Ref: p, RootT: m, Path: f.Name(), T: f.Type()})
			ov := vc.loadDesc(vc.entry, &PtrDesc{Root: rObj, Ref: msg.L[iObj], RootT: m, Path: f.Name(), T: f.Type()})
			lay := layoutOf(f.Type())
			for k := range nv.L {
				if lay.Leaves[k].Sort == sF32 || lay.Leaves[k].Sort == sF64 {
					cs = append(cs, or(eq(nv.L[k], ov.L[k]), and(app("fp.isNaN", nv.L[k]), app("fp.isNaN", ov.L[k]))))
				} else {
					cs = append(cs, eq(nv.L[k], ov.L[k]))
				}
			}
		}
		return and(cs...)
	}
	var subs []*SubGoal
	var labels []string
	for _, k := range nums {
		mi := prof.Msgs[k]
		is := eq(msg.L[iMt], bvLit(64, uint64(k)))
		var target *routerField
		for i := range rt.fields {
			if types.Identical(rt.fields[i].msg, mi.Named) {
				target = &rt.fields[i]
			}
		}
		var goals []string
		for _, f := range rt.fields {
			if target != nil && f.name == target.name {
				continue
			}
			goals = append(goals, sameVal(fieldVal(out, f.name), fieldVal(vc.entry, f.name)), keepElems(f.name))
		}
		for _, n := range rt.other {
			goals = append(goals, sameVal(fieldVal(out, n), fieldVal(vc.entry, n)))
		}
		if target != nil {
			nv, ov := fieldVal(out, target.name), fieldVal(vc.entry, target.name)
			if target.slice {
				q := vc.fresh("q_k")
				goals = append(goals, eq(nv.L[2], app("bvadd", ov.L[2], bvLit(64, 1))),
					fmt.Sprintf("(forall ((%s %s)) (=> (and (bvsle (_ bv0 64) %s) (bvslt %s %s)) (= %s %s)))", q, sBV64, q, q, ov.L[2], elemAt(out, nv, q), elemAt(vc.entry, ov, q)),
					copyOf(elemAt(out, nv, ov.L[2]), mi.Named))
			} else {
				goals = append(goals, copyOf(nv.L[0], mi.Named))
			}
		}
		subs = append(subs, &SubGoal{Prefix: len(vc.script), Cond: and(out.cond, is), Goal: and(goals...)})
		labels = append(labels, mi.Name)
	}
	vc.obls = append(vc.obls, w.routerExpandObligations(rt, prop)...)
	vc.obligeSubs("post", "routes", subs, false, fn.Pos(), []string{prop})
	o := vc.obls[len(vc.obls)-1]
	o.SubLabels = labels
	return res
}

func (w *World) routerObligations(run *checkRun) {
	rts := w.routerTypes()
	nf := 0
	for _, rt := range rts {
		fr := w.routerVC(rt, run.prop)
		run.results = append(run.results, fr)
		run.funcs = append(run.funcs, fr.Fn)
		if fr.Outside != "" {
			run.outside = append(run.outside, fr.Fn+": "+fr.Outside)
		}
		for _, t := range fr.Trusted {
			run.trusted[t] = true
		}
		for _, o := range fr.Obls {
			if hasProp(o.Props, run.prop) {
				run.items = append(run.items, workItem{fr, o})
			}
		}
		nf += len(rt.fields)
	}
	run.notes = append(run.notes, fmt.Sprintf("schema routers: %d container types with %d message-holding fields, each checked against all %d message types of the profile; the expected routing is read off the container struct types (go/types)", len(rts), nf, len(w.profile().Msgs)))
}

// routerExpandObligations: a message type with component fields is expanded
// before it is stored: the router of every container that holds it calls its
// expandComponents (decided on the SSA of the router).
func (w *World) routerExpandObligations(rt *routerType, prop string) []*Obligation {
	var out []*Obligation
	fn := rt.fn
	for _, f := range rt.fields {
		if _, has := w.expandAssigned(f.msg); !has {
			continue
		}
		called := false
		for _, b := range fn.Blocks {
			for _, instr := range b.Instrs {
				if call, ok := instr.(ssa.CallInstruction); ok {
					if cf := call.Common().StaticCallee(); cf != nil && cf.Name() == "expandComponents" && cf.Signature.Recv() != nil {
						if p, ok := cf.Signature.Recv().Type().(*types.Pointer); ok && types.Identical(p.Elem(), f.msg) {
							called = true
						}
					}
				}
			}
		}
		o := &Obligation{Name: fmt.Sprintf("%s#expands.%s", fn.String(), f.msg.Obj().Name()), Kind: "dispatch", Fn: fn.String(), Props: []string{prop}, Expect: "unsat", Solver: "ground", Status: "unsat", Goal: "true", Cond: "true"}
		if !called {
			o.Status = "sat"
			o.Output = fmt.Sprintf("%s holds %s, whose component fields must be expanded, but never calls (*%s).expandComponents", rt.named.Obj().Name(), f.msg.Obj().Name(), f.msg.Obj().Name())
			o.Model = o.Output
		} else if why := unexpandedStore(fn, f.msg); why != "" {
			// the call is there, but not on every path to the store: some messages are stored unexpanded
			o.Status = "sat"
			o.Output = fmt.Sprintf("%s: %s", rt.named.Obj().Name(), why)
			o.Model = o.Output
		}
		out = append(out, o)
	}
	return out
}

// unexpandedStore: in router fn, the copy of a message of type msg (a local of that type) is stored into the
// container (its address is written somewhere) at a point that is not dominated by a call of
// (*msg).expandComponents on that same copy. Returns "" if every such store is dominated by the call.
func unexpandedStore(fn *ssa.Function, msg *types.Named) string {
	type site struct {
		b *ssa.BasicBlock
		i int
	}
	calls := map[ssa.Value][]site{}
	for _, b := range fn.Blocks {
		for i, instr := range b.Instrs {
			if call, ok := instr.(ssa.CallInstruction); ok {
				if cf := call.Common().StaticCallee(); cf != nil && cf.Name() == "expandComponents" && cf.Signature.Recv() != nil && len(call.Common().Args) > 0 {
					if p, ok := cf.Signature.Recv().Type().(*types.Pointer); ok && types.Identical(p.Elem(), msg) {
						calls[call.Common().Args[0]] = append(calls[call.Common().Args[0]], site{b, i})
					}
				}
			}
		}
	}
	for _, b := range fn.Blocks {
		for _, instr := range b.Instrs {
			st, ok := instr.(*ssa.Store)
			if !ok {
				continue
			}
			al, ok := st.Val.(*ssa.Alloc)
			if !ok {
				continue
			}
			if p, ok := al.Type().(*types.Pointer); !ok || !types.Identical(p.Elem(), msg) {
				continue
			}
			dominated := false
			for _, c := range calls[al] {
				if c.b == b || c.b.Dominates(b) { // same block: straight-line code, the order of storing the pointer and expanding the copy does not matter
					dominated = true
				}
			}
			if !dominated {
				return fmt.Sprintf("the %s stored at %s is not expanded on every path to that store ((*%s).expandComponents is called on it only conditionally, or not on this copy)", msg.Obj().Name(), fn.Prog.Fset.Position(st.Pos()).String(), msg.Obj().Name())
			}
		}
	}
	return ""
}
